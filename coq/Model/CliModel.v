(* Model/CliModel.v — src/main.rs: fn cli_with_config (transcribed; the translator item `cli` audits
   the body text on every run) and a deliberately small model of what clap does with a repeated
   non-append argument (third-party behaviour: observed by the correspondence cli.run, not proved).
   No proofs here. *)
From Coq Require Import List NArith ZArith Bool Strings.String.
From V Require Import Base.Bytes Base.Res Gen.Cli.
Import ListNotations.
Local Open Scope string_scope.
Local Open Scope list_scope.

Definition word := bytes.

(* Vec::insert(index, element): panics when index > len *)
Fixpoint vec_insert {A} (i : nat) (x : A) (l : list A) : res (list A) :=
  match i with
  | O => Ok (x :: l)
  | S i' =>
    match l with
    | [] => Panic "main.rs:cli_with_config:Vec::insert index out of bounds"
    | y :: r => do r' <- vec_insert i' x r; Ok (y :: r')
    end
  end.

(* for (i, arg) in env::args_os().enumerate() {
       if let Some(s) = arg.to_str() { args.insert(i, s.into()); } }
   an argument that is not valid UTF-8 (to_str() = None) is skipped, but its index is consumed *)
Fixpoint splice_from (i : nat) (real : list (option word)) (args : list word) : res (list word) :=
  match real with
  | [] => Ok args
  | None :: r => splice_from (S i) r args
  | Some s :: r => do a <- vec_insert i s args; splice_from (S i) r a
  end.

Definition splice (real : list (option word)) (config_words : list word) : res (list word) :=
  splice_from 0 real config_words.

(* what fs::read_to_string + shell_words::split made of the config file *)
Inductive config_source :=
| Cfg_unreadable                       (* read_to_string failed: no file, a directory, not UTF-8 *)
| Cfg_bad_quotes                       (* shell_words::split returned Err *)
| Cfg_words (w : list word).

Inductive argv_outcome :=
| Parse_once (argv : list (option word))                        (* only Cli::parse() on the real argv *)
| Parse_twice (first : list (option word)) (second : list word)  (* Cli::parse() then Cli::parse_from(second) *)
| Exit_with (code : Z).

(* real: env::args_os() including argv[0];  config_file: the value of --config-file after the first parse *)
Definition cli_with_config_model (real : list (option word)) (config_file : word) (src : config_source)
  : res argv_outcome :=
  if bytes_eqb config_file config_none_word then Ok (Parse_once real) else
  match src with
  | Cfg_unreadable => Ok (Parse_once real)
  | Cfg_bad_quotes => Ok (Exit_with config_parse_error_exit)
  | Cfg_words w => do a <- splice real w; Ok (Parse_twice real a)
  end.

(* ---- clap, as far as C16 needs it (OBSERVED, see cli.run "duplicate" cases): an argument whose action
   is not Append (everything except -e/--extension and the FILE positional) given twice is a usage
   error with exit status 2.  Arguments are named by their Cli field. *)
Definition clap_usage_error_exit : Z := 2%Z.

Definition is_append_flag (f : string) : bool :=
  existsb (fun fl => String.eqb (fl_field fl) f && fl_append fl) cli_flags.

Definition mem_str (s : string) (l : list string) : bool := existsb (String.eqb s) l.

Fixpoint clap_accepts (given : list string) : bool :=
  match given with
  | [] => true
  | f :: r => (is_append_flag f || negb (mem_str f r)) && clap_accepts r
  end.
