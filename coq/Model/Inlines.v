(* Model/Inlines.v — the inline parser of comrak: `Subject` of src/parser/inlines.rs, the url/www matchers of
   src/parser/autolink.rs and `Parser::parse_inlines` of src/parser/mod.rs.  No proofs here.

   Shape.  The children of the block under construction are a list of items (id, node), LAST CHILD FIRST
   (`sibs`); delimiter-run and bracket Text nodes are referred to by id from the delimiter stack (`delims`,
   bottom first) and the bracket vector (`brackets`, top first).  `insert_emph` and `close_bracket_match` are
   list surgery.  Every index / unwrap / usize subtraction that the Rust text does not obviously guard is an
   explicit `Panic`.  Unicode data (char::is_whitespace, is_punctuation|is_symbol beyond ASCII, the case fold of
   normalize_label) is the `oracle` parameter, answered per case by the harness.

   `peek_char_n` asserts that the byte is not NUL: `feed` replaces NUL by U+FFFD, so block contents never contain
   it; the entry point answers OutOfScope on a NUL instead of threading the assertion through every peek. *)
From Coq Require Import List NArith ZArith Bool Strings.String.
From V Require Import Base.Bytes Base.Res Gen.StrLeafGen Gen.Consts Gen.Special Model.Special
     Model.Scan Model.Strings Model.Entity Model.LinkUrl Model.AutolinkLeaf Model.Spx Model.Ast.
Import ListNotations.
Local Open Scope string_scope.
Local Open Scope list_scope.

(* ------------------------------------------------------------------ options read by the inline phase *)
Record iopts := mkIO {
  io_autolink : bool; io_strikethrough : bool; io_subscript : bool; io_superscript : bool;
  io_underline : bool; io_spoiler : bool; io_math_dollars : bool; io_math_code : bool;
  io_wikilinks_after : bool; io_wikilinks_before : bool; io_footnotes : bool; io_tasklist : bool;
  io_smart : bool; io_relaxed_autolinks : bool; io_relaxed_tasklist : bool;
  io_escaped_char_spans : bool; io_ignore_empty_links : bool }.

(* the option paths of Gen/Special.v (tables of Subject::new, find_special_char) *)
Definition io_fn (o : iopts) : V.Model.Special.opts := fun p =>
  if String.eqb p "extension.autolink" then io_autolink o
  else if String.eqb p "extension.strikethrough" then io_strikethrough o
  else if String.eqb p "extension.subscript" then io_subscript o
  else if String.eqb p "extension.superscript" then io_superscript o
  else if String.eqb p "extension.underline" then io_underline o
  else if String.eqb p "extension.spoiler" then io_spoiler o
  else if String.eqb p "parse.smart" then io_smart o
  else if String.eqb p "extension.wikilinks" then io_wikilinks_after o || io_wikilinks_before o
  else false.

(* ExtensionOptions::wikilinks(): None | Some TitleFirst (true) | Some UrlFirst (false) *)
Definition wikilinks_mode (o : iopts) : option bool :=
  match io_wikilinks_before o, io_wikilinks_after o with
  | false, false => None
  | true, false => Some true
  | _, _ => Some false
  end.

Record oracle := mkOracle {
  u_ws : bytes -> bool;        (* char::is_whitespace of a non-ASCII character (UTF-8 bytes) *)
  u_ps : bytes -> bool;        (* is_punctuation || is_symbol of a non-ASCII character *)
  u_fold : bytes -> bytes }.   (* caseless::default_case_fold_str *)

(* ------------------------------------------------------------------ state *)
Definition item : Type := (nat * node)%type.

Record delim := mkDelim { d_id : nat; d_pos : nat; d_len : nat; d_char : byte; d_open : bool; d_close : bool }.
Record bracket := mkBracket { b_id : nat; b_pos : nat; b_image : bool; b_after : bool }.

Record st := mkSt {
  pos : nat; line : N; coloff : Z; lineoff : N;
  f_cdata : bool; f_decl : bool; f_pi : bool; f_comment : bool;
  refsize : N;
  delims : list delim;        (* bottom first *)
  brackets : list bracket;    (* top first *)
  within : bool;
  bt : list nat;              (* backticks[0..=MAXBACKTICKS] *)
  scanned : bool;
  nlo : bool;                 (* no_link_openers *)
  nid : nat;
  sibs : list item }.         (* last child first *)

Definition set_pos (s : st) (p : nat) : st :=
  mkSt p (line s) (coloff s) (lineoff s) (f_cdata s) (f_decl s) (f_pi s) (f_comment s) (refsize s)
       (delims s) (brackets s) (within s) (bt s) (scanned s) (nlo s) (nid s) (sibs s).
Definition set_linecol (s : st) (l : N) (c : Z) : st :=
  mkSt (pos s) l c (lineoff s) (f_cdata s) (f_decl s) (f_pi s) (f_comment s) (refsize s)
       (delims s) (brackets s) (within s) (bt s) (scanned s) (nlo s) (nid s) (sibs s).
Definition set_lineoff (s : st) (x : N) : st :=
  mkSt (pos s) (line s) (coloff s) x (f_cdata s) (f_decl s) (f_pi s) (f_comment s) (refsize s)
       (delims s) (brackets s) (within s) (bt s) (scanned s) (nlo s) (nid s) (sibs s).
Definition set_flags (s : st) (a b c d : bool) : st :=
  mkSt (pos s) (line s) (coloff s) (lineoff s) a b c d (refsize s)
       (delims s) (brackets s) (within s) (bt s) (scanned s) (nlo s) (nid s) (sibs s).
Definition set_refsize (s : st) (x : N) : st :=
  mkSt (pos s) (line s) (coloff s) (lineoff s) (f_cdata s) (f_decl s) (f_pi s) (f_comment s) x
       (delims s) (brackets s) (within s) (bt s) (scanned s) (nlo s) (nid s) (sibs s).
Definition set_delims (s : st) (x : list delim) : st :=
  mkSt (pos s) (line s) (coloff s) (lineoff s) (f_cdata s) (f_decl s) (f_pi s) (f_comment s) (refsize s)
       x (brackets s) (within s) (bt s) (scanned s) (nlo s) (nid s) (sibs s).
Definition set_brackets (s : st) (x : list bracket) : st :=
  mkSt (pos s) (line s) (coloff s) (lineoff s) (f_cdata s) (f_decl s) (f_pi s) (f_comment s) (refsize s)
       (delims s) x (within s) (bt s) (scanned s) (nlo s) (nid s) (sibs s).
Definition set_within (s : st) (x : bool) : st :=
  mkSt (pos s) (line s) (coloff s) (lineoff s) (f_cdata s) (f_decl s) (f_pi s) (f_comment s) (refsize s)
       (delims s) (brackets s) x (bt s) (scanned s) (nlo s) (nid s) (sibs s).
Definition set_bt (s : st) (x : list nat) (sc : bool) : st :=
  mkSt (pos s) (line s) (coloff s) (lineoff s) (f_cdata s) (f_decl s) (f_pi s) (f_comment s) (refsize s)
       (delims s) (brackets s) (within s) x sc (nlo s) (nid s) (sibs s).
Definition set_nlo (s : st) (x : bool) : st :=
  mkSt (pos s) (line s) (coloff s) (lineoff s) (f_cdata s) (f_decl s) (f_pi s) (f_comment s) (refsize s)
       (delims s) (brackets s) (within s) (bt s) (scanned s) x (nid s) (sibs s).
Definition set_sibs (s : st) (n : nat) (x : list item) : st :=
  mkSt (pos s) (line s) (coloff s) (lineoff s) (f_cdata s) (f_decl s) (f_pi s) (f_comment s) (refsize s)
       (delims s) (brackets s) (within s) (bt s) (scanned s) (nlo s) n x.

(* node.append(nd0): returns the id given to the new child *)
Definition push_item (s : st) (n : node) : st * nat :=
  (set_sibs s (S (nid s)) ((nid s, n) :: sibs s), nid s).
Definition fresh_id (s : st) : st * nat := (set_sibs s (S (nid s)) (sibs s), nid s).

(* ------------------------------------------------------------------ small helpers *)
Definition usub (site : string) (a b : nat) : res nat :=
  if Nat.ltb a b then Panic site else Ok (a - b).
Definition nsub (site : string) (a b : N) : res N :=
  if (a <? b)%N then Panic site else Ok (a - b)%N.

Definition is_cont (b : byte) : bool := N.eqb (bN b / 64) 2.
Definition first_char (s : bytes) : bytes :=
  match s with [] => [] | b :: r => b :: firstn (char_width b - 1) r end.

Fixpoint list_set {A} (l : list A) (i : nat) (v : A) : list A :=
  match l, i with
  | [], _ => []
  | _ :: r, O => v :: r
  | x :: r, S k => x :: list_set r k v
  end.

Definition text_of (n : node) : option bytes := match nval n with Text t => Some t | _ => None end.
Definition set_text (n : node) (t : bytes) : node := match n with Node _ sp ch => Node (Text t) sp ch end.
Definition set_sp (n : node) (sp : sourcepos) : node := match n with Node v _ ch => Node v sp ch end.
Definition set_ch (n : node) (ch : list node) : node := match n with Node v sp _ => Node v sp ch end.

(* split a list of items at the item with the given id: (before, item, after) in list order *)
Fixpoint split_at_id (id : nat) (l : list item) : option (list item * item * list item) :=
  match l with
  | [] => None
  | x :: r =>
    if Nat.eqb (fst x) id then Some ([], x, r)
    else match split_at_id id r with
         | Some (a, y, b) => Some (x :: a, y, b)
         | None => None
         end
  end.

Definition nl_char : bytes := [x0a].
Definition utf8_emdash : bytes := [xe2; x80; x94].
Definition utf8_endash : bytes := [xe2; x80; x93].
Definition utf8_ellipsis : bytes := [xe2; x80; xa6].
Definition utf8_lsquo : bytes := [xe2; x80; x98].
Definition utf8_rsquo : bytes := [xe2; x80; x99].
Definition utf8_ldquo : bytes := [xe2; x80; x9c].
Definition utf8_rdquo : bytes := [xe2; x80; x9d].

Fixpoint repeat_list {A} (n : nat) (l : list A) : list A :=
  match n with O => [] | S k => l ++ repeat_list k l end.

(* count_newlines *)
Fixpoint count_newlines (s : bytes) (nls since : nat) : nat * nat :=
  match s with
  | [] => (nls, since)
  | c :: r => if beqb c x0a then count_newlines r (S nls) 0 else count_newlines r nls (S since)
  end.

Section Subject.
Variable memo : bool.   (* true = the code as it is; false = scan_to_closing_backtick without its early answer from the
                           memo (`scanned_for_backticks && backticks[n] <= pos`): the reference for backtick_memo_sound *)
Variable o : iopts.
Variable u : oracle.
Variable inp : bytes.                                  (* Subject.input: the block content, rtrimmed *)
Variable lo : list N.                                  (* the block's line_offsets *)
Variable start_line : N.                               (* the block's sourcepos.start.line *)
Variable refmap : list (bytes * (bytes * bytes)).      (* normalized label -> (url, title) *)
Variable maxref : N.                                   (* refmap.max_ref_size *)

Definition len : nat := List.length inp.
Definition peek_n (p n : nat) : option byte := nth_error inp (p + n).
Definition peek (p : nat) : option byte := nth_error inp p.
Definition peek_is (p : nat) (f : byte -> bool) : bool :=
  match peek p with Some c => f c | None => false end.
Definition peek_eq (p : nat) (c : byte) : bool := peek_is p (beqb c).
Definition eof (p : nat) : bool := Nat.leb len p.

(* &self.input[a..b] *)
Definition slice (site : string) (a b : nat) : res bytes :=
  if Nat.ltb b a || Nat.ltb len b then Panic site else Ok (firstn (b - a) (skipn a inp)).
Definition from (site : string) (a : nat) : res bytes :=
  if Nat.ltb len a then Panic site else Ok (skipn a inp).

Definition skipc (b : byte) : bool := skip_chars (io_fn o) b.

(* make_inline(value, start_column, end_column) *)
Definition mk (s : st) (v : node_value) (sc ec : nat) : res node :=
  do ce <- make_inline_cols (N.of_nat sc) (N.of_nat ec) (coloff s) (lineoff s);
  Ok (Node v (mkSp (line s) (fst ce) (line s) (snd ce)) []).

(* usize::try_from(self.pos as isize + self.column_offset + self.line_offset as isize).unwrap() *)
Definition end_col (s : st) : res N :=
  to_usize "inlines.rs:end_column:try_from.unwrap" (Z.of_nat (pos s) + coloff s + Z.of_N (lineoff s))%Z.

(* take_while(c) from position p: number of bytes equal to c *)
Definition count_eq (c : byte) (p : nat) : nat := count_while_b (beqb c) (skipn p inp).

(* skip_spaces *)
Definition skip_spaces (p : nat) : nat :=
  p + count_while_b (fun c => beqb c x20 || beqb c x09) (skipn p inp).

(* skip_line_end: (new pos, result) *)
Definition skip_line_end (p : nat) : nat * bool :=
  let p1 := if peek_eq p x0d then S p else p in
  let p2 := if peek_eq p1 x0a then S p1 else p1 in
  (p2, Nat.ltb p p2 || eof p2).

(* ------------------------------------------------------------------ adjust_node_newlines *)
Definition adjust_node_newlines (s : st) (n : node) (matchlen extra : nat) : res (st * node) :=
  do a <- usub "inlines.rs:adjust_node_newlines:pos-matchlen-extra" (pos s) (matchlen + extra);
  do b <- usub "inlines.rs:adjust_node_newlines:pos-extra" (pos s) extra;
  do sl <- slice "inlines.rs:adjust_node_newlines:slice" a b;
  let (newlines, since) := count_newlines sl 0 0 in
  match newlines with
  | O => Ok (s, n)
  | _ =>
    let line' := (line s + N.of_nat newlines)%N in
    let sp := nsp n in
    do adj <- nsub "inlines.rs:adjust_node_newlines:line-start.line" line' (Ast.sl sp);
    match nth_error lo (N.to_nat adj) with
    | None => Panic "inlines.rs:adjust_node_newlines:parent_line_offsets[adjusted_line]"
    | Some off =>
      let sp' := mkSp (Ast.sl sp) (Ast.sc sp) (Ast.el sp + N.of_nat newlines)%N
                      (off + N.of_nat since + N.of_nat extra)%N in
      Ok (set_linecol s line' (adjust_offset (N.of_nat (pos s)) (N.of_nat since) (N.of_nat extra)),
          set_sp n sp')
    end
  end.

(* ------------------------------------------------------------------ handle_newline *)
Definition handle_newline (s : st) : res (st * node) :=
  let nlpos := pos s in
  match nth_error inp nlpos with
  | None => Panic "inlines.rs:handle_newline:input[pos]"
  | Some c0 =>
    let p1 := if beqb c0 x0d then S nlpos else nlpos in
    match nth_error inp p1 with
    | None => Panic "inlines.rs:handle_newline:input[pos] after CR"
    | Some c1 =>
      let p2 := if beqb c1 x0a then S p1 else p1 in
      do p2m1 <- usub "inlines.rs:handle_newline:pos-1" p2 1;
      do nd0 <-
        (if Nat.ltb 1 nlpos && peek_eq (nlpos - 1) x20 && peek_eq (nlpos - 2) x20
         then mk s LineBreak (nlpos - 2) p2m1
         else mk s SoftBreak nlpos p2m1);
      let s1 := set_linecol s (line s + 1)%N (newline_offset (N.of_nat p2)) in
      Ok (set_pos s1 (skip_spaces p2), nd0)
    end
  end.

(* ------------------------------------------------------------------ backticks *)
Definition maxbt : nat := N.to_nat maxbackticks.

(* the loop of scan_to_closing_backtick from position p; run = length of the backtick run that ends at p;
   fr = scanned_for_backticks (constant during the loop: it is only set on the way out): once a scan has reached
   the end of the input the table is final and no run is recorded any more.
   Result: (Some endpos | None, backticks, scanned) *)
Fixpoint stcb_loop (rest : bytes) (p run otl : nat) (fr : bool) (b : list nat) : option nat * list nat * bool :=
  let finish_run (b : list nat) := if negb fr && Nat.leb run maxbt then list_set b run (p - run) else b in
  match rest with
  | [] =>
    match run with
    | O => (None, b, true)
    | _ => let b' := finish_run b in
           if Nat.eqb run otl then (Some p, b', false) else (None, b', true)
    end
  | c :: r =>
    if beqb c x60 then stcb_loop r (S p) (S run) otl fr b
    else
      match run with
      | O => stcb_loop r (S p) 0 otl fr b
      | _ => let b' := finish_run b in
             if Nat.eqb run otl then (Some p, b', false) else stcb_loop r (S p) 0 otl fr b'
      end
  end.

(* (endpos, st) ; the position is left to the caller *)
Definition scan_to_closing_backtick (s : st) (otl : nat) : option nat * st :=
  if Nat.ltb maxbt otl then (None, s)
  else if memo && scanned s && Nat.leb (nth otl (bt s) 0) (pos s) then (None, s)
  else
    let '(r, b', sc) := stcb_loop (skipn (pos s) inp) (pos s) 0 otl (scanned s) (bt s) in
    (r, set_bt s b' (scanned s || sc)).

Definition handle_backticks (s : st) : res (st * node) :=
  let startpos := pos s in
  let openticks := count_eq x60 startpos in
  let s1 := set_pos s (startpos + openticks) in
  let (endpos, s2) := scan_to_closing_backtick s1 openticks in
  match endpos with
  | None =>
    let s3 := set_pos s2 (startpos + openticks) in
    do e <- usub "inlines.rs:handle_backticks:pos-1" (pos s3) 1;
    do n <- mk s3 (Text (repeat_bytes openticks x60)) startpos e;
    Ok (s3, n)
  | Some endpos =>
    let s3 := set_pos s2 endpos in
    do eb <- usub "inlines.rs:handle_backticks:endpos-openticks" endpos openticks;
    do buf <- slice "inlines.rs:handle_backticks:buf" (startpos + openticks) eb;
    do code <- normalize_code buf;
    do e <- usub "inlines.rs:handle_backticks:endpos-1" endpos 1;
    do n <- mk s3 (Code (N.of_nat openticks) code) startpos e;
    do ml <- usub "inlines.rs:handle_backticks:matchlen" (endpos - startpos) openticks;
    adjust_node_newlines s3 n ml openticks
  end.

(* ------------------------------------------------------------------ backslash, entity *)
Definition handle_backslash (s : st) : res (st * node) :=
  let startpos := pos s in
  let p1 := S startpos in
  if peek_is p1 sl_ispunct then
    match peek p1 with
    | None => Panic "inlines.rs:handle_backslash:unreachable"
    | Some c =>
      let s1 := set_pos s (S p1) in
      do t <- mk s1 (Text [c]) startpos p1;
      if io_escaped_char_spans o then
        do e <- mk s1 Escaped startpos p1;
        Ok (s1, set_ch e [t])
      else Ok (s1, t)
    end
  else
    let (p2, ok) := skip_line_end p1 in
    if negb (eof p1) && ok then
      do e <- usub "inlines.rs:handle_backslash:pos-1" p2 1;
      do n <- mk s LineBreak startpos e;
      let s1 := set_linecol s (line s + 1)%N (newline_offset (N.of_nat p2)) in
      Ok (set_pos s1 (skip_spaces p2), n)
    else
      (* skip_line_end moved nothing when it answered false; when eof(p1) it is not called *)
      do n <- mk s (Text [x5c]) startpos startpos;
      Ok (set_pos s p1, n).

Definition handle_entity (s : st) : res (st * node) :=
  let p1 := S (pos s) in
  do rest <- from "inlines.rs:handle_entity:input[pos..]" p1;
  do e <- Entity.unescape rest;
  match e with
  | None => do n <- mk s (Text [x26]) (pos s) (pos s); Ok (set_pos s p1, n)
  | Some (ent, l) =>
    let p2 := p1 + l in
    do a <- usub "inlines.rs:handle_entity:pos-1-len" p2 (1 + l);
    do b <- usub "inlines.rs:handle_entity:pos-1" p2 1;
    do n <- mk s (Text ent) a b;
    Ok (set_pos s p2, n)
  end.

(* ------------------------------------------------------------------ handle_pointy_brace *)
Definition make_autolink (s : st) (url : bytes) (email : bool) (sc ec : nat) : res node :=
  do cu <- clean_autolink url email;
  do nd0 <- mk s (Link cu []) sc ec;
  do tx <- Entity.unescape_html url;
  do ecm <- usub "inlines.rs:make_autolink:end_column-1" ec 1;
  do t <- mk s (Text tx) (S sc) ecm;
  Ok (set_ch nd0 [t]).

Definition opt0 (x : option nat) : nat := match x with Some n => n | None => 0 end.

Definition handle_pointy_brace (s : st) : res (st * node) :=
  let p := S (pos s) in
  do rest <- from "inlines.rs:handle_pointy_brace:input[pos..]" p;
  match scan_autolink_uri rest with
  | Some m =>
    let p2 := p + m in
    do url <- slice "inlines.rs:handle_pointy_brace:uri" p (p2 - 1);
    do a <- usub "inlines.rs:handle_pointy_brace:pos-1-matchlen" p2 (1 + m);
    do n <- make_autolink s url false a (p2 - 1);
    Ok (set_pos s p2, n)
  | None =>
  match scan_autolink_email rest with
  | Some m =>
    let p2 := p + m in
    do url <- slice "inlines.rs:handle_pointy_brace:email" p (p2 - 1);
    do a <- usub "inlines.rs:handle_pointy_brace:pos-1-matchlen" p2 (1 + m);
    do n <- make_autolink s url true a (p2 - 1);
    Ok (set_pos s p2, n)
  | None =>
    (* (matchlen, flags) *)
    let fl := (f_cdata s, f_decl s, f_pi s, f_comment s) in
    let '(matchlen, (fc, fd, fp, fm)) :=
      if Nat.leb (p + 2) len then
        match nth_error inp p, nth_error inp (S p) with
        | Some c, Some c1 =>
          if beqb c x21 && negb (f_comment s) then
            if beqb c1 x2d && peek_eq (p + 2) x2d then
              if peek_eq (p + 3) x3e then (Some 4, fl)
              else if peek_eq (p + 3) x2d && peek_eq (p + 4) x3e then (Some 5, fl)
              else match scan_html_comment (skipn (S p) inp) with
                   | Some m => (Some (S m), fl)
                   | None => (None, (f_cdata s, f_decl s, f_pi s, true))
                   end
            else if beqb c1 x5b then
              if negb (f_cdata s) && Nat.leb (p + 3) len then
                match scan_html_cdata (skipn (p + 2) inp) with
                | Some m =>
                  if Nat.ltb len (p + m + 5) then (None, (true, f_decl s, f_pi s, f_comment s))
                  else (Some (m + 5), fl)
                | None => (None, fl)
                end
              else (None, fl)
            else if negb (f_decl s) then
              match scan_html_declaration (skipn (S p) inp) with
              | Some m =>
                if Nat.ltb len (p + m + 2) then (None, (f_cdata s, true, f_pi s, f_comment s))
                else (Some (m + 2), fl)
              | None => (None, fl)
              end
            else (None, fl)
          else if beqb c x3f then
            if negb (f_pi s) then
              let m := opt0 (scan_html_processing_instruction (skipn (S p) inp)) in
              if Nat.ltb len (p + m + 3) then (None, (f_cdata s, f_decl s, true, f_comment s))
              else (Some (m + 3), fl)
            else (None, fl)
          else (scan_html_tag rest, fl)
        | _, _ => (None, fl)
        end
      else (None, fl) in
    let s1 := set_flags s fc fd fp fm in
    match matchlen with
    | Some m =>
      do contents <- slice "inlines.rs:handle_pointy_brace:contents" (p - 1) (p + m);
      let s2 := set_pos s1 (p + m) in
      do a <- usub "inlines.rs:handle_pointy_brace:pos-matchlen-1" (p + m) (m + 1);
      do b <- usub "inlines.rs:handle_pointy_brace:pos-1" (p + m) 1;
      do n <- mk s2 (HtmlInline contents) a b;
      adjust_node_newlines s2 n m 1
    | None =>
      do n <- mk s1 (Text [x3c]) (pos s) (pos s);
      Ok (set_pos s1 p, n)
    end
  end
  end.

(* ------------------------------------------------------------------ scan_delims *)
(* Unicode classes of a character given as UTF-8 bytes; ASCII concrete, beyond ASCII the oracle *)
Definition ch_ws (c : bytes) : bool :=
  match c with
  | [b] => if is_ascii b then ascii_whitespace b else u_ws u c
  | _ => u_ws u c
  end.
Definition ch_ps (c : bytes) : bool :=
  match c with
  | [b] => if is_ascii b then sl_ispunct b else u_ps u c
  | _ => u_ps u c
  end.

(* `(x as usize) < 256 && self.skip_chars[x as usize]` for the character x given as UTF-8 *)
Definition char_skipped (c : bytes) : bool :=
  match c with
  | [b] => if is_ascii b then skipc b else false
  | [b0; b1] =>
    if beqb b0 xc2 || beqb b0 xc3
    then skipc (byte_of_N ((bN b0 mod 32) * 64 + bN b1 mod 64))
    else false
  | _ => false
  end.

(* r = [input[bcp]; input[bcp-1]; ..; input[0]]:
   while bcp > 0 && (input[bcp] >> 6 == 2 || skip_chars[input[bcp]]) { bcp -= 1 } *)
Fixpoint back_skip (r : bytes) (bcp : nat) : nat :=
  match r with
  | b :: ((_ :: _) as r') => if is_cont b || skipc b then back_skip r' (bcp - 1) else bcp
  | _ => bcp
  end.

Definition before_char (p : nat) : bytes :=
  match p with
  | O => nl_char
  | S p1 =>
    let bcp := back_skip (rev (firstn p inp)) p1 in
    let c := first_char (firstn (p - bcp) (skipn bcp inp)) in
    match c with
    | [] => nl_char
    | _ => if char_skipped c then nl_char else c
    end
  end.

(* while acp < len - 1 && skip_chars[input[acp]] { acp += 1 } ; rest = input[acp..] *)
Fixpoint fwd_skip (rest : bytes) : bytes :=
  match rest with
  | b :: ((_ :: _) as r') => if skipc b then fwd_skip r' else rest
  | _ => rest
  end.

Definition after_char (p : nat) : bytes :=
  if eof p then nl_char
  else
    let c := first_char (fwd_skip (skipn p inp)) in
    match c with
    | [] => nl_char
    | _ => if char_skipped c then nl_char else c
    end.

(* (new pos, numdelims, can_open, can_close) *)
Definition scan_delims (p : nat) (c : byte) : nat * nat * bool * bool :=
  let before := before_char p in
  let numdelims := if beqb c x27 || beqb c x22 then 1 else count_eq c p in
  let p' := p + numdelims in
  let after := after_char p' in
  let bw := ch_ws before in let bp := ch_ps before in
  let aw := ch_ws after in let ap := ch_ps after in
  let left_flanking := Nat.ltb 0 numdelims && negb aw && negb (ap && negb bw && negb bp) in
  let right_flanking := Nat.ltb 0 numdelims && negb bw && negb (bp && negb aw && negb ap) in
  if beqb c x5f then
    (p', numdelims, left_flanking && (negb right_flanking || bp), right_flanking && (negb left_flanking || ap))
  else if beqb c x27 || beqb c x22 then
    (p', numdelims,
     left_flanking && (negb right_flanking || bytes_eqb before [x28] || bytes_eqb before [x5b])
       && negb (bytes_eqb before [x5d]) && negb (bytes_eqb before [x29]),
     right_flanking)
  else (p', numdelims, left_flanking, right_flanking).

Definition handle_delim (s : st) (c : byte) : res (st * node * option delim) :=
  let '(p', numdelims, can_open, can_close) := scan_delims (pos s) c in
  let s1 := set_pos s p' in
  do a <- usub "inlines.rs:handle_delim:pos-numdelims" p' numdelims;
  do contents <-
    (if beqb c x27 && io_smart o then Ok utf8_rsquo
     else if beqb c x22 && io_smart o then Ok (if can_close then utf8_rdquo else utf8_ldquo)
     else slice "inlines.rs:handle_delim:contents" a p');
  do e <- usub "inlines.rs:handle_delim:pos-1" p' 1;
  do n <- mk s1 (Text contents) a e;
  if (can_open || can_close) && (negb (beqb c x27 || beqb c x22) || io_smart o) then
    (* push_delimiter: the id is the one the caller's append will give *)
    Ok (s1, n, Some (mkDelim (nid s1) p' (List.length contents) c can_open can_close))
  else Ok (s1, n, None).

(* ------------------------------------------------------------------ smart punctuation *)
Definition handle_hyphen (s : st) : res (st * node) :=
  let start := pos s in
  let p1 := S start in
  if negb (io_smart o) || negb (peek_eq p1 x2d) then
    do n <- mk s (Text [x2d]) start start; Ok (set_pos s p1, n)
  else
    let p2 := p1 + count_eq x2d p1 in
    let num := p2 - start in
    let '(ens, ems) :=
      if Nat.eqb (num mod 3) 0 then (0, num / 3)
      else if Nat.eqb (num mod 2) 0 then (num / 2, 0)
      else if Nat.eqb (num mod 3) 2 then (1, (num - 2) / 3)
      else (2, (num - 4) / 3) in
    do n <- mk s (Text (repeat_list ems utf8_emdash ++ repeat_list ens utf8_endash)) start (p2 - 1);
    Ok (set_pos s p2, n).

Definition handle_period (s : st) : res (st * node) :=
  let p0 := pos s in
  let p1 := S p0 in
  if io_smart o && peek_eq p1 x2e then
    let p2 := S p1 in
    if peek_eq p2 x2e then
      do n <- mk s (Text utf8_ellipsis) p0 p2; Ok (set_pos s (S p2), n)
    else
      do n <- mk s (Text [x2e; x2e]) p0 p1; Ok (set_pos s p2, n)
  else
    do n <- mk s (Text [x2e]) p0 p0; Ok (set_pos s p1, n).

(* ------------------------------------------------------------------ dollars *)
Definition maxdollars : nat := N.to_nat max_math_dollars.

(* take_while_with_limit(c, limit) from p *)
Definition count_eq_limit (c : byte) (p limit : nat) : nat := Nat.min limit (count_eq c p).

Fixpoint stcd_loop (fuel : nat) (p odl : nat) : res (option nat) :=
  match fuel with
  | O => OutOfFuel
  | S f =>
    let p1 := p + count_while_b (fun c => negb (beqb c x24)) (skipn p inp) in
    if Nat.leb len p1 then Ok None
    else
      do pm <- usub "inlines.rs:scan_to_closing_dollar:pos-1" p1 1;
      match nth_error inp pm with
      | None => Panic "inlines.rs:scan_to_closing_dollar:input[pos-1]"
      | Some c =>
        if Nat.eqb odl 1 && sl_isspace c then Ok None
        else if Nat.eqb odl 1 && beqb c x5c then stcd_loop f (S p1) odl
        else
          let nd := count_eq_limit x24 p1 odl in
          let p2 := p1 + nd in
          if Nat.eqb odl 1 && peek_is p2 sl_isdigit then Ok None
          else if Nat.eqb nd odl then Ok (Some p2)
          else stcd_loop f p2 odl
      end
  end.

Definition scan_to_closing_dollar (p odl : nat) : res (option nat) :=
  if negb (io_math_dollars o) || Nat.ltb maxdollars odl then Ok None
  else if Nat.eqb odl 1 && peek_is p sl_isspace then Ok None
  else stcd_loop (S len) p odl.

Fixpoint stccd_loop (fuel : nat) (p : nat) : res (option nat) :=
  match fuel with
  | O => OutOfFuel
  | S f =>
    let p1 := p + count_while_b (fun c => negb (beqb c x24)) (skipn p inp) in
    if Nat.leb len p1 then Ok None
    else
      do pm <- usub "inlines.rs:scan_to_closing_code_dollar:pos-1" p1 1;
      match nth_error inp pm with
      | None => Panic "inlines.rs:scan_to_closing_code_dollar:input[pos-1]"
      | Some c => if beqb c x60 then Ok (Some (S p1)) else stccd_loop f (S p1)
      end
  end.

Definition handle_dollars (s : st) : res (st * node) :=
  if negb (io_math_dollars o || io_math_code o) then
    do n <- mk s (Text [x24]) (pos s) (pos s); Ok (set_pos s (S (pos s)), n)
  else
    let startpos := pos s in
    let opendollars := count_eq x24 startpos in
    let p1 := startpos + opendollars in
    let code_math := Nat.eqb opendollars 1 && io_math_code o && peek_eq p1 x60 in
    let p2 := if code_math then S p1 else p1 in
    let fence_length := if code_math then 2 else opendollars in
    do e0 <- (if code_math then stccd_loop (S len) p2 else scan_to_closing_dollar p2 opendollars);
    let e := match e0 with
             | Some ep => if Nat.leb (fence_length * 2 + 1) (ep - startpos) then Some ep else None
             | None => None
             end in
    match e with
    | Some endpos =>
      do eb <- usub "inlines.rs:handle_dollars:endpos-fence_length" endpos fence_length;
      do buf <- slice "inlines.rs:handle_dollars:buf" (startpos + fence_length) eb;
      do lit <- (if code_math || Nat.eqb opendollars 1 then normalize_code buf else Ok buf);
      let s1 := set_pos s endpos in
      do n <- mk s1 (Math (negb code_math) (Nat.eqb opendollars 2) lit) startpos (endpos - 1);
      do ml <- usub "inlines.rs:handle_dollars:matchlen" (endpos - startpos) fence_length;
      adjust_node_newlines s1 n ml fence_length
    | None =>
      if code_math then
        do n <- mk s (Text [x24]) startpos startpos; Ok (set_pos s (S startpos), n)
      else
        let p3 := startpos + fence_length in
        do a <- usub "inlines.rs:handle_dollars:pos-fence_length" p3 fence_length;
        do b <- usub "inlines.rs:handle_dollars:pos-1" p3 1;
        do n <- mk s (Text (repeat_bytes opendollars x24)) a b;
        Ok (set_pos s p3, n)
    end.

(* ------------------------------------------------------------------ process_emphasis / insert_emph
   `items` is the sibling list (FIRST child first) that holds the Text nodes of the delimiters being processed:
   the block's children for process_emphasis(0), the new link's children inside close_bracket_match.
   The delimiters at or above stack_bottom are a zipper: below (nearest first), closer, above (nearest first). *)
Definition item_text_len (site : string) (it : item) : res nat :=
  match text_of (snd it) with
  | Some t => Ok (List.length t)
  | None => Panic site
  end.

Definition emph_value (opener_char : byte) (use_delims : nat) : node_value :=
  if io_subscript o && beqb opener_char x7e && Nat.eqb use_delims 1 then Subscript
  else if beqb opener_char x7e then
    if io_strikethrough o then Strikethrough
    else if Nat.eqb use_delims 1 then EscapedTag [x7e] else EscapedTag [x7e; x7e]
  else if io_superscript o && beqb opener_char x5e then Superscript
  else if io_spoiler o && beqb opener_char x7c then
    if Nat.eqb use_delims 2 then SpoileredText else EscapedTag [x7c]
  else if io_underline o && beqb opener_char x5f && Nat.eqb use_delims 2 then Underline
  else if Nat.eqb use_delims 1 then Emph
  else Strong.

(* result: None = the early `return None` (tilde mismatch: nothing changed);
   Some (items', opener kept?, closer kept?, id counter) *)
Definition insert_emph (s : st) (n0 : nat) (items : list item) (op cl : delim)
  : res (option (list item * bool * bool * nat)) :=
  match split_at_id (d_id op) items with
  | None => Panic "inlines.rs:insert_emph:opener.inl not among the siblings"
  | Some (pre, opi, rest1) =>
    match split_at_id (d_id cl) rest1 with
    | None => Panic "inlines.rs:insert_emph:opener.inl.next_sibling().unwrap()"
    | Some (mid, cli, post) =>
      match text_of (snd opi), text_of (snd cli) with
      | Some ot, Some ct =>
        match ot with
        | [] => Panic "inlines.rs:insert_emph:opener text as_bytes()[0]"
        | opener_char :: _ =>
          let on := List.length ot in
          let cn := List.length ct in
          let use_delims := if Nat.leb 2 cn && Nat.leb 2 on then 2 else 1 in
          do on' <- usub "inlines.rs:insert_emph:opener_num_chars-use_delims" on use_delims;
          do cn' <- usub "inlines.rs:insert_emph:closer_num_chars-use_delims" cn use_delims;
          if (io_strikethrough o || io_subscript o) && beqb opener_char x7e
             && (negb (Nat.eqb on' cn') || Nat.ltb 0 on')
          then Ok None
          else
            do tmp <- mk s (emph_value opener_char use_delims) (pos s) (pos s);
            let osp := nsp (snd opi) in
            let csp := nsp (snd cli) in
            do eec <- nsub "inlines.rs:insert_emph:closer end.column-closer_num_chars" (ec csp) (N.of_nat cn');
            let emph := Node (nval tmp) (mkSp (sl osp) (sc osp + N.of_nat on')%N (el csp) eec) (map snd mid) in
            do opl <-
              (if Nat.eqb on' 0 then Ok []
               else
                 do c <- nsub "inlines.rs:insert_emph:opener end.column-use_delims" (ec osp) (N.of_nat use_delims);
                 Ok [(fst opi, set_sp (set_text (snd opi) (firstn on' ot)) (mkSp (sl osp) (sc osp) (el osp) c))]);
            let cll :=
              if Nat.eqb cn' 0 then []
              else [(fst cli, set_sp (set_text (snd cli) (firstn cn' ct))
                                     (mkSp (sl csp) (sc csp + N.of_nat use_delims)%N (el csp) (ec csp)))] in
            Ok (Some (pre ++ opl ++ [(n0, emph)] ++ cll ++ post,
                      negb (Nat.eqb on' 0), negb (Nat.eqb cn' 0), S n0))
        end
      | _, _ => Panic "inlines.rs:insert_emph:text().unwrap()"
      end
    end
  end.

Definition ob_index (c : delim) : res nat :=
  let ch := d_char c in
  if beqb ch x7c then Ok 0 else if beqb ch x7e then Ok 1 else if beqb ch x5e then Ok 2
  else if beqb ch x22 then Ok 3 else if beqb ch x27 then Ok 4 else if beqb ch x5f then Ok 5
  else if beqb ch x2a then Ok (6 + (if d_open c then 3 else 0) + d_len c mod 3)
  else Panic "inlines.rs:process_emphasis:unreachable".

(* the opener search: walks `below` (nearest first); between = the delimiters passed (nearest first).
   Result: (Some (between, opener, rest) | None, mod_three_rule_invoked) *)
Fixpoint find_opener (c : delim) (bottom : nat) (below between_rev : list delim) (mod3 : bool)
  : option (list delim * delim * list delim) * bool :=
  match below with
  | [] => (None, mod3)
  | op :: rest =>
    if Nat.leb bottom (d_pos op) then
      if d_open op && beqb (d_char op) (d_char c) then
        let odd_match := (d_open c || d_close op)
                         && Nat.eqb ((d_len op + d_len c) mod 3) 0
                         && negb (Nat.eqb (d_len op mod 3) 0 && Nat.eqb (d_len c mod 3) 0) in
        if negb odd_match then (Some (rev between_rev, op, rest), mod3)
        else find_opener c bottom rest (op :: between_rev) true
      else find_opener c bottom rest (op :: between_rev) mod3
    else (None, mod3)
  end.

Definition is_emph_char (ch : byte) : bool :=
  beqb ch x2a || beqb ch x5f
  || ((io_strikethrough o || io_subscript o) && beqb ch x7e)
  || (io_superscript o && beqb ch x5e)
  || (io_spoiler o && beqb ch x7c).

Definition replace_item_text (site : string) (id : nat) (t : bytes) (items : list item) : res (list item) :=
  match split_at_id id items with
  | Some (a, it, b) =>
    match text_of (snd it) with
    | Some _ => Ok (a ++ [(fst it, set_text (snd it) t)] ++ b)
    | None => Panic site
    end
  | None => Panic site
  end.

(* the `while let Some(c) = closer` loop *)
Fixpoint pe_loop (fuel : nat) (s : st) (n0 : nat) (items : list item) (ob : list nat)
         (below : list delim) (closer : option delim) (above : list delim) : res (list item * nat) :=
  match fuel with
  | O => OutOfFuel
  | S f =>
    match closer with
    | None => Ok (items, n0)
    | Some c =>
      let next_closer := match above with [] => None | a :: _ => Some a end in
      let above' := match above with [] => [] | _ :: r => r end in
      if d_close c then
        do ix <- ob_index c;
        let (found, mod3) := find_opener c (nth ix ob 0) below [] false in
        (* bookkeeping when no opener was found: openers_bottom, and old_c leaves the stack unless it can open *)
        let ob_nf := if mod3 then ob else list_set ob ix (d_pos c) in
        let below_nf := if d_open c then c :: below else below in
        if is_emph_char (d_char c) then
          match found with
          | Some (between, op, rest) =>
            do r <- insert_emph s n0 items op c;
            match r with
            | None => Ok (items, n0)         (* closer = None: the loop ends *)
            | Some (items', keep_op, keep_cl, n1) =>
              let below' := if keep_op then op :: rest else rest in
              if keep_cl then pe_loop f s n1 items' ob below' (Some c) above
              else pe_loop f s n1 items' ob below' next_closer above'
            end
          | None => pe_loop f s n0 items ob_nf below_nf next_closer above'
          end
        else if beqb (d_char c) x27 || beqb (d_char c) x22 then
          do items1 <- replace_item_text "inlines.rs:process_emphasis:closer text_mut().unwrap()" (d_id c)
                         (if beqb (d_char c) x27 then utf8_rsquo else utf8_rdquo) items;
          match found with
          | Some (between, op, rest) =>
            do items2 <- replace_item_text "inlines.rs:process_emphasis:opener text_mut().unwrap()" (d_id op)
                           (if beqb (d_char c) x27 then utf8_lsquo else utf8_ldquo) items1;
            pe_loop f s n0 items2 ob (between ++ rest) next_closer above'
          | None => pe_loop f s n0 items1 ob_nf below_nf next_closer above'
          end
        else OutOfFuel   (* neither branch moves the closer: the Rust loop would not terminate *)
      else pe_loop f s n0 items ob (c :: below) next_closer above'
    end
  end.

(* process_emphasis(stack_bottom) on the delimiters `ds` (bottom first) at or above stack_bottom *)
Definition process_emphasis (s : st) (n0 : nat) (items : list item) (ds : list delim) (stack_bottom : nat)
  : res (list item * nat) :=
  let ob := repeat stack_bottom 12 in
  match ds with
  | [] => Ok (items, n0)
  | c :: above => pe_loop (2 * len + 2 * List.length ds + 2) s n0 items ob [] (Some c) above
  end.

(* the delimiters below / at-or-above a position (the stack is ordered by position) *)
Definition delims_below (ds : list delim) (bottom : nat) : list delim :=
  filter (fun d => Nat.ltb (d_pos d) bottom) ds.
Definition delims_from (ds : list delim) (bottom : nat) : list delim :=
  filter (fun d => Nat.leb bottom (d_pos d)) ds.

(* ------------------------------------------------------------------ brackets *)
Definition push_bracket (s : st) (image : bool) (id : nat) : st :=
  let bs := match brackets s with
            | [] => []
            | b :: r => mkBracket (b_id b) (b_pos b) (b_image b) true :: r
            end in
  let s1 := set_brackets s (mkBracket id (pos s) image false :: bs) in
  if image then s1 else set_nlo s1 false.

Definition maxlabel : nat := N.to_nat max_link_label_length.

(* the while loop of link_label / wikilink_component from position p (rest = input[p..]);
   stop = the bytes that end the loop.  Result: None = length limit exceeded;
   Some (p', at_stop) = loop left at p', at_stop = the byte there if the loop ended on a stop byte
   (None: end of input) *)
Fixpoint label_loop (stop : byte -> bool) (rest : bytes) (skip p length : nat) : option (nat * option byte) :=
  match rest with
  | [] => Some (p, None)
  | c :: r =>
    match skip with
    | S k => label_loop stop r k (S p) length
    | O =>
      if stop c then Some (p, Some c)
      else if beqb c x5c then
        match r with
        | c2 :: _ =>
          if sl_ispunct c2 then
            if Nat.ltb maxlabel (length + 2) then None else label_loop stop r 1 (S p) (length + 2)
          else
            if Nat.ltb maxlabel (length + 1) then None else label_loop stop r 0 (S p) (length + 1)
        | [] => if Nat.ltb maxlabel (length + 1) then None else label_loop stop r 0 (S p) (length + 1)
        end
      else if Nat.ltb maxlabel (length + 1) then None else label_loop stop r 0 (S p) (length + 1)
    end
  end.

(* link_label from position p: Some (raw label, new pos) | None (pos unchanged) *)
Definition link_label (p : nat) : option (bytes * nat) :=
  if negb (peek_eq p x5b) then None
  else
    match label_loop (fun c => beqb c x5b || beqb c x5d) (skipn (S p) inp) 0 (S p) 0 with
    | Some (p', Some c) =>
      if beqb c x5d then Some (trim_slice (firstn (p' - S p) (skipn (S p) inp)), S p') else None
    | _ => None
    end.

(* RefMap::lookup *)
Fixpoint assoc_ref (k : bytes) (l : list (bytes * (bytes * bytes))) : option (bytes * bytes) :=
  match l with
  | [] => None
  | (k', v) :: r => if bytes_eqb k k' then Some v else assoc_ref k r
  end.

Definition ref_lookup (s : st) (lab : bytes) : res (st * option (bytes * bytes)) :=
  match assoc_ref lab refmap with
  | Some (url, title) =>
    let size := N.of_nat (List.length url + List.length title) in
    do room <- nsub "inlines.rs:RefMap::lookup:max_ref_size-ref_size" maxref (refsize s);
    if (room <? size)%N then Ok (s, None)
    else Ok (set_refsize s (refsize s + size)%N, Some (url, title))
  | None => Ok (s, None)
  end.

Definition top_bracket (s : st) : res bracket :=
  match brackets s with
  | b :: _ => Ok b
  | [] => Panic "inlines.rs:brackets[brackets_len - 1]"
  end.
Definition pop_bracket (s : st) : st :=
  set_brackets s (match brackets s with [] => [] | _ :: r => r end).

(* close_bracket_match *)
Definition close_bracket_match (s : st) (is_image : bool) (url title : bytes) : res st :=
  do b <- top_bracket s;
  do tmp <- mk s (if is_image then Image url title else Link url title) (pos s) (pos s);
  (* sibs is last-first: the bracket's following siblings come before it in the list *)
  match split_at_id (b_id b) (sibs s) with
  | None => Panic "inlines.rs:close_bracket_match:bracket inl_text not among the children"
  | Some (after_rev, bi, before_rev) =>
    do ecol <- end_col s;
    let bsp := nsp (snd bi) in
    let sp := mkSp (sl bsp) (sc bsp) (el (nsp tmp)) ecol in
    let (s1, lid) := fresh_id s in
    do r <- process_emphasis s1 (nid s1) (rev after_rev) (delims_from (delims s1) (b_pos b)) (b_pos b);
    let (kids, n1) := r in
    let link := Node (nval tmp) sp (map snd kids) in
    let s2 := set_sibs s1 n1 ((lid, link) :: before_rev) in
    let s3 := pop_bracket (set_delims s2 (delims_below (delims s2) (b_pos b))) in
    Ok (if is_image then s3 else set_nlo s3 true)
  end.

Definition is_text_or_html (n : node) : bool :=
  match nval n with Text _ | HtmlInline _ => true | _ => false end.
Definition lit_of (n : node) : bytes :=
  match nval n with Text t | HtmlInline t => t | _ => [] end.

(* handle_close_bracket: the node to append, if any *)
Definition handle_close_bracket (s0 : st) : res (st * option node) :=
  let s := set_pos s0 (S (pos s0)) in
  let initial_pos := pos s in
  let close_text (s : st) := (do n <- mk s (Text [x5d]) (pos s - 1) (pos s - 1); Ok (s, Some n)) in
  match brackets s with
  | [] => close_text s
  | b :: _ =>
    let is_image := b_image b in
    if negb is_image && nlo s then close_text (pop_bracket s)
    else
      match split_at_id (b_id b) (sibs s) with
      | None => Panic "inlines.rs:handle_close_bracket:bracket inl_text not among the children"
      | Some (after_rev, bi, before_rev) =>
        let blank_only :=
          forallb (fun it => match text_of (snd it) with Some t => is_blank t | None => false end) after_rev in
        if io_ignore_empty_links o && negb is_image && blank_only then close_text (pop_bracket s)
        else
          (* inline link: (dest "title") *)
          do inline_link <-
            (if peek_eq (pos s) x28 then
               let sps := opt0 (scan_spacechars (skipn (pos s + 1) inp)) in
               let offset := pos s + 1 + sps in
               if Nat.ltb offset len then
                 do m <- manual_scan_link_url (skipn offset inp);
                 match m with
                 | Some (url, n) =>
                   let starturl := offset in
                   let endurl := starturl + n in
                   do r1 <- from "inlines.rs:handle_close_bracket:input[endurl..]" endurl;
                   let starttitle := endurl + opt0 (scan_spacechars r1) in
                   do r2 <- from "inlines.rs:handle_close_bracket:input[starttitle..]" starttitle;
                   let endtitle := if Nat.eqb starttitle endurl then starttitle
                                   else starttitle + opt0 (scan_link_title r2) in
                   do r3 <- from "inlines.rs:handle_close_bracket:input[endtitle..]" endtitle;
                   let endall := endtitle + opt0 (scan_spacechars r3) in
                   if Nat.ltb endall len && peek_eq endall x29 then
                     do cu <- clean_url url;
                     do ts <- slice "inlines.rs:handle_close_bracket:title" starttitle endtitle;
                     do ct <- clean_title ts;
                     Ok (Some (S endall, cu, ct))
                   else Ok None
                 | None => Ok None
                 end
               else Ok None
             else Ok None);
          match inline_link with
          | Some (p', cu, ct) =>
            do s' <- close_bracket_match (set_pos s p') is_image cu ct;
            Ok (s', None)
          | None =>
            (* reference link *)
            let '(lab0, found0, p1) :=
              match link_label (pos s) with
              | Some (l, p') => (l, true, p')
              | None => ([], false, initial_pos)
              end in
            do labf <-
              (if (negb found0 || match lab0 with [] => true | _ => false end) && negb (b_after b) then
                 do l <- slice "inlines.rs:handle_close_bracket:label from bracket position" (b_pos b) (initial_pos - 1);
                 Ok (l, true)
               else Ok (lab0, found0));
            let (lab, found_label) := labf in
            let s1 := set_pos s p1 in
            let nlab := normalize_label (u_fold u) lab true in
            do lk <- (if found_label then ref_lookup s1 nlab else Ok (s1, None));
            let (s2, reff) := lk in
            match reff with
            | Some (url, title) =>
              do s' <- close_bracket_match s2 is_image url title;
              Ok (s', None)
            | None =>
              let next_sibling := match rev after_rev with [] => None | x :: _ => Some x end in
              let is_fn := io_footnotes o &&
                           match next_sibling with
                           | Some it => match text_of (snd it) with
                                        | Some t => starts_with t [x5e]
                                        | None => false
                                        end
                           | None => false
                           end in
              let text := List.concat (map (fun it => lit_of (snd it)) (rev after_rev)) in
              if is_fn && Nat.ltb 1 (List.length text) then
                let s3 := set_pos s2 initial_pos in
                do tmp <- mk s3 (FootnoteReference (skipn 1 text) 0 0) (pos s3) (pos s3);
                do ecol <- end_col s3;
                let tsp := nsp tmp in
                let fnode := Node (nval tmp) (mkSp (sl tsp) (sc (nsp (snd bi))) (el tsp) ecol) [] in
                let (s4, fid) := fresh_id s3 in
                let kept_rev := filter (fun it => negb (is_text_or_html (snd it))) after_rev in
                let s5 := set_sibs s4 (nid s4) (kept_rev ++ (fid, fnode) :: before_rev) in
                let s6 := pop_bracket (set_delims s5 (delims_below (delims s5) (b_pos b))) in
                Ok (s6, None)
              else
                let s3 := set_pos (pop_bracket s2) initial_pos in
                close_text s3
            end
          end
      end
  end.

(* ------------------------------------------------------------------ wikilinks *)
(* wikilink_component from p: Some new pos (true) | None (false; pos restored by the caller) *)
Definition wikilink_component (p : nat) : option nat :=
  if negb (peek_eq p x5b) && negb (peek_eq p x7c) then None
  else
    match label_loop (fun c => beqb c x5b || beqb c x5d || beqb c x7c) (skipn (S p) inp) 0 (S p) 0 with
    | Some (p', _) => Some p'
    | None => None
    end.

(* wikilink_url_link_label from p: Some (url, Some (label, start column) | None, new pos) *)
Definition wikilink_url_link_label (p : nat) : option (bytes * option (bytes * nat) * nat) :=
  if negb (peek_eq p x5b) then None
  else
    match wikilink_component p with
    | None => None
    | Some p1 =>
      let left := trim_slice (firstn (p1 - S p) (skipn (S p) inp)) in
      if peek_eq p1 x5d && peek_eq (S p1) x5d then Some (left, None, p1 + 2)
      else if negb (peek_eq p1 x7c) then None
      else
        match wikilink_component p1 with
        | None => None
        | Some p2 =>
          let right := trim_slice (firstn (p2 - S p1) (skipn (S p1) inp)) in
          if peek_eq p2 x5d && peek_eq (S p2) x5d then
            match wikilinks_mode o with
            | Some false => Some (left, Some (right, S p1), p2 + 2)       (* UrlFirst *)
            | Some true => Some (right, Some (left, S p), p2 + 2)         (* TitleFirst *)
            | None => None                                                (* unreachable!() : guarded by the caller *)
            end
          else None
        end
    end.

(* label_backslash_escapes: the children appended to the container, in order *)
Fixpoint lbe_loop (s : st) (sc0 : nat) (rest : bytes) (offset startpos : nat) (cur_rev : bytes)
         (acc_rev : list node) : res (list node) :=
  match rest with
  | [] =>
    if Nat.eqb startpos offset then Ok (rev acc_rev)
    else
      do e <- usub "inlines.rs:label_backslash_escapes:start_column+offset-1" (sc0 + offset) 1;
      do t <- mk s (Text (rev cur_rev)) (sc0 + startpos) e;
      Ok (rev (t :: acc_rev))
  | c :: r =>
    match r with
    | c2 :: r2 =>
      if beqb c x5c && sl_ispunct c2 then
        do e <- usub "inlines.rs:label_backslash_escapes:start_column+offset-1" (sc0 + offset) 1;
        do pre <- mk s (Text (rev cur_rev)) (sc0 + startpos) e;
        do t <- mk s (Text [c2]) (sc0 + offset) (sc0 + offset + 1);
        do x <- (if io_escaped_char_spans o then
                   do sp <- mk s Escaped (sc0 + offset) (sc0 + offset + 1); Ok (set_ch sp [t])
                 else Ok t);
        lbe_loop s sc0 r2 (offset + 2) (offset + 2) [] (x :: pre :: acc_rev)
      else lbe_loop s sc0 r (S offset) startpos (c :: cur_rev) acc_rev
    | [] => lbe_loop s sc0 r (S offset) startpos (c :: cur_rev) acc_rev
    end
  end.

(* handle_wikilink: pos is just after the first bracket *)
Definition handle_wikilink (s : st) : res (option (st * node)) :=
  let startpos := pos s in
  match wikilink_url_link_label startpos with
  | None => Ok None
  | Some (url, ll, p') =>
    let s1 := set_pos s p' in
    do cu <- clean_url url;
    do lab <- (match ll with
               | Some (label, c) => do x <- Entity.unescape_html label; Ok (x, c)
               | None => do x <- Entity.unescape_html url; Ok (x, S startpos)
               end);
    do a <- usub "inlines.rs:handle_wikilink:startpos-1" startpos 1;
    do n <- mk s1 (WikiLink cu) a (p' - 1);
    do kids <- lbe_loop s1 (snd lab) (fst lab) 0 0 [] [];
    Ok (Some (s1, set_ch n kids))
  end.

(* ------------------------------------------------------------------ autolink extension (parser/autolink.rs) *)
Definition hostchar_oracle (ch : bytes) : bool := negb (u_ws u ch || u_ps u ch).
Definition www_delims (b : byte) : bool := mem_byte b [x2a; x5f; x7e; x28; x5b].

(* while link_end < size - i && !isspace(contents[i + link_end]) { relaxed test; link_end += 1 }
   rest = contents[i + link_end..]; prev = contents[i + link_end - 1] when the test may read it *)
Fixpoint ext_loop (rest : bytes) (prev : option byte) (le : nat) : option nat :=
  match rest with
  | [] => Some le
  | c :: r =>
    if sl_isspace c then Some le
    else if io_relaxed_autolinks o && match prev with Some b => beqb b x5d | None => false end && beqb c x28
    then None
    else ext_loop r (Some c) (S le)
  end.

Definition schemes : list bytes := [[x68; x74; x74; x70]; [x68; x74; x74; x70; x73]; [x66; x74; x70]].

(* (url, text, reverse, skip) *)
Definition url_match (i : nat) : res (option (bytes * bytes * nat * nat)) :=
  if Nat.ltb (len - i) 4 || negb (peek_eq (i + 1) x2f) || negb (peek_eq (i + 2) x2f) then Ok None
  else
    let rewind := count_while_b sl_isalpha (rev (firstn i inp)) in
    let scheme := firstn rewind (skipn (i - rewind) inp) in
    if negb (io_relaxed_autolinks o)
       && negb (existsb (fun sch => Nat.leb (List.length sch) (len - i + rewind) && bytes_eqb scheme sch) schemes)
    then Ok None
    else
      do d <- check_domain hostchar_oracle (skipn (i + 3) inp) true;
      match d with
      | None => Ok None
      | Some le0 =>
        match ext_loop (skipn (i + le0) inp) (if Nat.ltb 0 le0 then nth_error inp (i + le0 - 1) else None) le0 with
        | None => Ok None
        | Some le1 =>
          do le2 <- autolink_delim (skipn i inp) le1 (io_relaxed_autolinks o);
          let url := firstn (rewind + le2) (skipn (i - rewind) inp) in
          Ok (Some (url, url, rewind, rewind + le2))
        end
      end.

Definition www_match (i : nat) : res (option (bytes * bytes * nat * nat)) :=
  if Nat.ltb 0 i && negb (peek_is (i - 1) sl_isspace) && negb (peek_is (i - 1) www_delims) then Ok None
  else if negb (starts_with (skipn i inp) [x77; x77; x77; x2e]) then Ok None
  else
    do d <- check_domain hostchar_oracle (skipn i inp) false;
    match d with
    | None => Ok None
    | Some le0 =>
      do pm <- usub "autolink.rs:www_match:i+link_end-1" (i + le0) 1;
      match ext_loop (skipn (i + le0) inp) (nth_error inp pm) le0 with
      | None => Ok None
      | Some le1 =>
        do le2 <- autolink_delim (skipn i inp) le1 (io_relaxed_autolinks o);
        let text := firstn le2 (skipn i inp) in
        Ok (Some ([x68; x74; x74; x70; x3a; x2f; x2f] ++ text, text, 0, le2))
      end
    end.

Definition as_usize (v : Z) : N := if (v <? 0)%Z then Z.to_N (v + 18446744073709551616)%Z else Z.to_N v.

(* the rewind loop over the block's last children *)
Fixpoint rewind_loop (fuel : nat) (reverse : nat) (l : list item) : res (list item) :=
  match reverse with
  | O => Ok l
  | _ =>
    match fuel with
    | O => OutOfFuel
    | S f =>
      match l with
      | [] => Panic "inlines.rs:handle_autolink_with:node.last_child().unwrap()"
      | (id, n) :: r =>
        match text_of n with
        | Some prev =>
          if Nat.ltb reverse (List.length prev) then
            let sp := nsp n in
            do c <- nsub "inlines.rs:handle_autolink_with:end.column-reverse" (ec sp) (N.of_nat reverse);
            Ok ((id, set_sp (set_text n (firstn (List.length prev - reverse) prev))
                             (mkSp (sl sp) (sc sp) (el sp) c)) :: r)
          else rewind_loop f (reverse - List.length prev) r
        | None => Panic "inlines.rs:handle_autolink_with:expected text node before autolink colon"
        end
      end
    end
  end.

Definition handle_autolink_with (s : st) (m : nat -> res (option (bytes * bytes * nat * nat)))
  : res (option (st * node)) :=
  if negb (io_relaxed_autolinks o) && within s then Ok None
  else
    let startpos := pos s in
    do r <- m startpos;
    match r with
    | None => Ok None
    | Some (url, text, need_reverse, skip) =>
      do adv <- usub "inlines.rs:handle_autolink_with:skip-need_reverse" skip need_reverse;
      let s1 := set_pos s (startpos + adv) in
      do l' <- rewind_loop (S (List.length (sibs s1))) need_reverse (sibs s1);
      let s2 := set_sibs s1 (nid s1) l' in
      let sc := as_usize (Z.of_nat startpos - Z.of_nat need_reverse + 1 + coloff s2 + Z.of_N (lineoff s2))%Z in
      let ecl := as_usize (Z.of_nat (pos s2) + coloff s2 + Z.of_N (lineoff s2))%Z in
      let sp := mkSp (line s2) sc (line s2) ecl in
      Ok (Some (s2, Node (Link url []) sp [Node (Text text) sp []]))
    end.

(* ------------------------------------------------------------------ parse_inline *)
Definition append (r : res (st * node)) : res (option st) :=
  do x <- r; let (s, n) := x in Ok (Some (fst (push_item s n))).

Definition text1 (s : st) (c : byte) : res (option st) :=
  (* self.pos += 1; make_inline(Text(c), self.pos - 1, self.pos - 1) *)
  let s1 := set_pos s (S (pos s)) in
  append (do n <- mk s1 (Text [c]) (pos s) (pos s); Ok (s1, n)).

Definition last_child_is_linebreak (s : st) : bool :=
  match sibs s with
  | (_, n) :: _ => match nval n with LineBreak => true | _ => false end
  | [] => false
  end.

(* None = parse_inline returned false *)
Definition parse_inline (s0 : st) : res (option st) :=
  match peek (pos s0) with
  | None => Ok None
  | Some c =>
    do adj <- nsub "inlines.rs:parse_inline:line-start.line" (line s0) start_line;
    match nth_error lo (N.to_nat adj) with
    | None => Panic "inlines.rs:parse_inline:line_offsets[adjusted_line]"
    | Some off =>
      let s := set_lineoff s0 off in
      if beqb c x00 then Ok None
      else if beqb c x0d || beqb c x0a then append (handle_newline s)
      else if beqb c x60 then append (handle_backticks s)
      else if beqb c x5c then append (handle_backslash s)
      else if beqb c x26 then append (handle_entity s)
      else if beqb c x3c then append (handle_pointy_brace s)
      else if beqb c x3a then
        do r <- (if io_autolink o then handle_autolink_with s url_match else Ok None);
        match r with
        | Some (s1, n) => Ok (Some (fst (push_item s1 n)))
        | None => text1 s x3a
        end
      else if beqb c x77 && io_autolink o then
        do r <- handle_autolink_with s www_match;
        match r with
        | Some (s1, n) => Ok (Some (fst (push_item s1 n)))
        | None => text1 s x77
        end
      else if beqb c x2a || beqb c x5f || beqb c x27 || beqb c x22
              || (beqb c x7e && (io_strikethrough o || io_subscript o))
              || (beqb c x5e && io_superscript o && negb (within s))
              || (beqb c x7c && io_spoiler o)
              then
        do r <- handle_delim s c;
        let '(s1, n, d) := r in
        let (s2, _) := push_item s1 n in
        Ok (Some (match d with Some d => set_delims s2 (delims s2 ++ [d]) | None => s2 end))
      else if beqb c x2d then append (handle_hyphen s)
      else if beqb c x2e then append (handle_period s)
      else if beqb c x5b then
        let s1 := set_pos s (S (pos s)) in
        do w <- (if (match wikilinks_mode o with Some _ => true | None => false end)
                    && negb (within s1) && peek_eq (pos s1) x5b
                 then handle_wikilink s1 else Ok None);
        match w with
        | Some (s2, n) => Ok (Some (fst (push_item s2 n)))
        | None =>
          do n <- mk s1 (Text [x5b]) (pos s) (pos s);
          let (s2, id) := push_item s1 n in
          Ok (Some (set_within (push_bracket s2 false id) true))
        end
      else if beqb c x5d then
        do r <- handle_close_bracket (set_within s false);
        let (s1, n) := r in
        Ok (Some (match n with Some n => fst (push_item s1 n) | None => s1 end))
      else if beqb c x21 then
        let p1 := S (pos s) in
        if peek_eq p1 x5b && negb (peek_eq (S p1) x5e) then
          let s1 := set_pos s (S p1) in
          do n <- mk s1 (Text [x21; x5b]) (pos s) p1;
          let (s2, id) := push_item s1 n in
          Ok (Some (set_within (push_bracket s2 true id) true))
        else
          let s1 := set_pos s p1 in
          append (do n <- mk s1 (Text [x21]) (pos s) (pos s); Ok (s1, n))
      else if beqb c x24 then append (handle_dollars s)
      else
        let endpos := N.to_nat (find_special_char (io_fn o) (within s) inp (pos s)) in
        do contents <- slice "inlines.rs:parse_inline:input[pos..endpos]" (pos s) endpos;
        let startpos := pos s in
        let s1 := set_pos s endpos in
        do ce <- (if peek_is endpos is_line_end_char then
                    do r <- rtrim contents; Ok (fst r, endpos - snd r)
                  else Ok (contents, endpos));
        let (contents1, endpos1) := ce in
        do cs <- (if last_child_is_linebreak s1 then
                    do r <- ltrim contents1; Ok (fst r, startpos + snd r)
                  else Ok (contents1, startpos));
        let (contents2, startpos2) := cs in
        do e <- usub "inlines.rs:parse_inline:endpos-1" endpos1 1;
        append (do n <- mk s1 (Text contents2) startpos2 e; Ok (s1, n))
    end
  end.

Fixpoint inline_loop (fuel : nat) (s : st) : res st :=
  match fuel with
  | O => OutOfFuel
  | S f =>
    do r <- parse_inline s;
    match r with
    | None => Ok s
    | Some s' => inline_loop f s'
    end
  end.

Definition init_st (refsize0 : N) : st :=
  mkSt 0 start_line 0%Z 0%N false false false false refsize0 [] [] false (repeat 0 (S maxbt)) false true 0 [].

(* Parser::parse_inlines for one block: the children and the reference budget used so far *)
Definition parse_inlines (refsize0 : N) : res (list node * N) :=
  do s <- inline_loop (S len) (init_st refsize0);
  do r <- process_emphasis s (nid s) (rev (sibs s)) (delims s) 0;
  Ok (map snd (fst r), refsize s).

End Subject.

Inductive outcome := Done (ch : list node) (refsize : N) | OutOfScope (what : string).

Definition has_nul (s : bytes) : bool := existsb (beqb x00) s.

Definition run_inlines_gen (memo : bool) (o : iopts) (u : oracle) (content : bytes) (lo : list N) (start_line : N)
           (refmap : list (bytes * (bytes * bytes))) (maxref refsize0 : N) : res outcome :=
  let inp := rtrim_slice content in
  if has_nul inp then Ok (OutOfScope "NUL byte in block content (feed replaces NUL)")
  else
    do r <- parse_inlines memo o u inp lo start_line refmap maxref refsize0;
    Ok (Done (fst r) (snd r)).

(* ================================================================== postprocess_text_nodes (parser/mod.rs)
   and process_email_autolinks / email_match (parser/autolink.rs), for the children of ONE block.
   The task-list step needs the block context: `ctx` = Some (start column of the parent) when the parent is a
   Paragraph without previous sibling whose parent is an Item inside a List; its effect on the ancestors is
   returned (`tl_effect`) instead of being performed. *)
Section Postprocess.
Variable o : iopts.

Definition email_ok (c : byte) : bool := sl_isalnum c || mem_byte c [x2e; x2b; x2d; x5f].
Definition proto_mailto : bytes := [x6d; x61; x69; x6c; x74; x6f].
Definition proto_xmpp : bytes := [x78; x6d; x70; x70].

(* the rewind loop: (rewind, auto_mailto, is_xmpp) *)
Fixpoint em_rewind (fuel : nat) (contents : bytes) (i rewind : nat) (auto_mailto is_xmpp : bool)
  : res (nat * bool * bool) :=
  match fuel with
  | O => OutOfFuel
  | S f =>
    if Nat.ltb rewind i then
      match nth_error contents (i - rewind - 1) with
      | None => Panic "autolink.rs:email_match:contents[i - rewind - 1]"
      | Some c =>
        if email_ok c then em_rewind f contents i (S rewind) auto_mailto is_xmpp
        else if beqb c x3a then
          do m <- validate_protocol proto_mailto contents (i - rewind - 1);
          if m then em_rewind f contents i (S rewind) false is_xmpp
          else
            do x <- validate_protocol proto_xmpp contents (i - rewind - 1);
            if x then em_rewind f contents i (S rewind) false true
            else Ok (rewind, auto_mailto, is_xmpp)
        else Ok (rewind, auto_mailto, is_xmpp)
      end
    else Ok (rewind, auto_mailto, is_xmpp)
  end.

(* the forward loop over rest = contents[i + link_end..]: None = return None; Some (link_end, np) *)
Fixpoint em_forward (rest : bytes) (link_end np : nat) (is_xmpp : bool) : option (nat * nat) :=
  match rest with
  | [] => Some (link_end, np)
  | c :: r =>
    if sl_isalnum c then em_forward r (S link_end) np is_xmpp
    else if beqb c x40 then None
    else if beqb c x2e && match r with c2 :: _ => sl_isalnum c2 | [] => false end
    then em_forward r (S link_end) (S np) is_xmpp
    else if beqb c x2f && is_xmpp then em_forward r (S link_end) np is_xmpp
    else if negb (beqb c x2d) && negb (beqb c x5f) then Some (link_end, np)
    else em_forward r (S link_end) np is_xmpp
  end.

(* (url, text, rewind, rewind + link_end) *)
Definition email_match (contents : bytes) (i : nat) : res (option (bytes * bytes * nat * nat)) :=
  do rw <- em_rewind (S i) contents i 0 true false;
  let '(rewind, auto_mailto, is_xmpp) := rw in
  if Nat.eqb rewind 0 then Ok None
  else
    match em_forward (skipn (S i) contents) 1 0 is_xmpp with
    | None => Ok None
    | Some (link_end, np) =>
      match nth_error contents (i + link_end - 1) with
      | None => Panic "autolink.rs:email_match:contents[i + link_end - 1]"
      | Some lastc =>
        if Nat.ltb link_end 2 || Nat.eqb np 0 || (negb (sl_isalpha lastc) && negb (beqb lastc x2e)) then Ok None
        else
          do le <- autolink_delim (skipn i contents) link_end (io_relaxed_autolinks o);
          if Nat.eqb le 0 then Ok None
          else
            let text := firstn (rewind + le) (skipn (i - rewind) contents) in
            Ok (Some ((if auto_mailto then mailto else []) ++ text, text, rewind, rewind + le))
      end
    end.

(* the inner scan of process_email_autolinks from i: Some (i, match) | None (ran to the end) *)
Fixpoint pea_scan (fuel : nat) (contents : bytes) (i : nat) (bo : Z)
  : res (option (nat * (bytes * bytes * nat * nat))) :=
  match fuel with
  | O => OutOfFuel
  | S f =>
    match nth_error contents i with
    | None => Ok None
    | Some c =>
      let bo' := if io_relaxed_autolinks o then bo
                 else if beqb c x5b then (bo + 1)%Z else if beqb c x5d then (bo - 1)%Z else bo in
      if negb (io_relaxed_autolinks o) && (0 <? bo')%Z then pea_scan f contents (S i) bo'
      else if beqb c x40 then
        do m <- email_match contents i;
        match m with
        | Some r => Ok (Some (i, r))
        | None => pea_scan f contents (S i) bo'
        end
      else pea_scan f contents (S i) bo'
    end
  end.

(* process_email_autolinks on (text, sourcepos, spx): the new text and sourcepos of the node, and the nodes
   inserted after it (Link, Text, Link, Text ..).  Since fix 89410a4 the Rust function is a loop over the
   original text (start offset, last link); this recursion on the remaining text is its functional reading:
   one unfolding = one iteration, `rem` = contents_str[start..], `asp` = the loop variable sp. *)
Fixpoint pea (fuel : nat) (contents : bytes) (sp : sourcepos) (spx : list piece)
  : res (bytes * sourcepos * list piece * list node) :=
  match fuel with
  | O => OutOfFuel
  | S f =>
    do r <- pea_scan (S (List.length contents)) contents 0 0%Z;
    match r with
    | None => Ok (contents, sp, spx, [])
    | Some (i0, (url, text, reverse, skip)) =>
      do i <- usub "autolink.rs:process_email_autolinks:i-reverse" i0 reverse;
      let remain := if Nat.ltb (i + skip) (List.length contents) then Some (skipn (i + skip) contents) else None in
      let initial_end_col := ec sp in
      do c1 <- consume spx (N.of_nat i);
      let (endc, spx1) := c1 in
      do c2 <- consume spx1 (N.of_nat skip);
      let (nsp_end, spx2) := c2 in
      let sp' := mkSp (sl sp) (sc sp) (el sp) endc in
      let nsp := mkSp (el sp) (endc + 1)%N (el sp) nsp_end in
      let post := Node (Link url []) nsp [Node (Text text) nsp []] in
      match remain with
      | None => Ok (firstn i contents, sp', spx2, [post])
      | Some rem =>
        let asp := mkSp (el sp) (nsp_end + 1)%N (el sp) initial_end_col in
        do rr <- pea f rem asp spx2;
        let '(rem', asp', spx3, more) := rr in
        Ok (firstn i contents, sp', spx3, post :: Node (Text rem') asp' [] :: more)
      end
    end
  end.

Record tl_effect := mkTl { tl_symbol : option bytes; tl_detach_parent : bool; tl_parent_sc : N }.

(* process_tasklist on the first Text child: (text, sourcepos, spx, effect) *)
Definition process_tasklist (ctx : option N) (is_first has_next : bool) (text : bytes) (sp : sourcepos)
           (spx : list piece) : res (bytes * sourcepos * list piece * option tl_effect) :=
  do m <- scan_tasklist text;
  match m with
  | None => Ok (text, sp, spx, None)
  | Some (e, symbol) =>
    if negb (io_relaxed_tasklist o) && negb (mem_byte symbol [x20; x78; x58]) then Ok (text, sp, spx, None)
    else if negb is_first then Ok (text, sp, spx, None)
    else
      match ctx with
      | None => Ok (text, sp, spx, None)
      | Some parent_sc =>
        do c <- consume spx (N.of_nat e);
        let (col, spx1) := c in
        let adjust := (col + 1)%N in
        if negb (N.eqb (sc sp) parent_sc) then Panic "parser/mod.rs:process_tasklist:assert_eq start columns"
        else
          let sym := if beqb symbol x20 then None else Some (encode_utf8 (bN symbol)) in
          if (ec sp <? adjust)%N && negb has_next then
            Ok (skipn e text, sp, spx1, Some (mkTl sym true parent_sc))
          else
            Ok (skipn e text, mkSp (sl sp) adjust (el sp) (ec sp), spx1, Some (mkTl sym false adjust))
      end
  end.

(* merge the Text siblings that follow: (text, end column, pieces, rest) *)
Fixpoint merge_texts (l : list node) (acc : bytes) (endc : N) (pieces_rev : list piece)
  : bytes * N * list piece * list node :=
  match l with
  | Node (Text adj) sp _ :: r => merge_texts r (acc ++ adj) (ec sp) ((sp, N.of_nat (List.length adj)) :: pieces_rev)
  | _ => (acc, endc, rev pieces_rev, l)
  end.

Definition is_bracket_kind (v : node_value) : bool :=
  match v with Link _ _ | Image _ _ | WikiLink _ => true | _ => false end.

(* the children list of one node: `first` = no previous sibling yet (the first child itself),
   top = these are the block's own children (the only ones whose parent can be a Paragraph) *)
Fixpoint pp_list (fuel : nat) (ctx : option N) (top first : bool) (l : list node)
  : res (list node * option tl_effect) :=
  match fuel with
  | O => OutOfFuel
  | S f =>
    match l with
    | [] => Ok ([], None)
    | Node (Text root) sp0 ch0 :: r =>
      let '(text, endc, spxv, rest) :=
        merge_texts r root (ec sp0) [(sp0, N.of_nat (List.length root))] in
      let sp := mkSp (sl sp0) (sc sp0) (el sp0) endc in
      do t1 <- (if io_tasklist o
                then process_tasklist (if top then ctx else None) first
                                      (match rest with [] => false | _ => true end) text sp spxv
                else Ok (text, sp, spxv, None));
      let '(text1, sp1, spx1, eff) := t1 in
      do t2 <- (if io_autolink o then pea (S (List.length text1)) text1 sp1 spx1
                else Ok (text1, sp1, spx1, []));
      let '(text2, sp2, _, inserted) := t2 in
      do rr <- pp_list f ctx top false (inserted ++ rest);
      let (rest', eff') := rr in
      let eff2 := match eff with Some _ => eff | None => eff' end in
      match text2 with
      | [] => Ok (rest', eff2)
      | _ => Ok (Node (Text text2) sp2 ch0 :: rest', eff2)
      end
    | Node v sp ch :: r =>
      do rr <- pp_list f ctx top false r;
      let (rest', eff') := rr in
      if is_bracket_kind v then Ok (Node v sp ch :: rest', eff')
      else
        do cc <- pp_list f None false true ch;
        Ok (Node v sp (fst cc) :: rest', eff')
    end
  end.

Fixpoint nsize (n : node) : nat :=
  match n with
  | Node v _ ch => S (match v with Text t => List.length t | _ => 0 end) + fold_right (fun c a => nsize c + a) 0 ch
  end.
Definition total_size (l : list node) : nat := fold_right (fun c a => nsize c + a) 0 l.

Definition postprocess_block (ctx : option N) (children : list node) : res (list node * option tl_effect) :=
  pp_list (4 * total_size children + 8) ctx true true children.

End Postprocess.

(* ================================================================== the footnote pass seen from one block
   (find_footnote_references of parser/mod.rs; the whole pass is Model/Footnotes.v): a FootnoteReference whose
   folded name is not the folded name of a registered definition becomes the Text `[^name]` (same position);
   the others get ref_num / ix / name from the document-wide numbering, which this per-block view leaves alone.
   `defs` = the names of the definitions reachable from the root without entering a definition. *)
Fixpoint fn_resolve (fold : bytes -> bytes) (defs : list bytes) (n : node) : node :=
  match n with
  | Node v sp ch =>
    match v with
    | FootnoteReference name _ _ =>
      if existsb (fun d => bytes_eqb (normalize_label fold d true) (normalize_label fold name true)) defs then n
      else Node (Text ([x5b; x5e] ++ name ++ [x5d])) sp ch
    | _ => Node v sp (map (fn_resolve fold defs) ch)
    end
  end.

Definition run_inlines := run_inlines_gen true.

(* ================================================================== reference definitions (parser/mod.rs):
   parse_reference_inline uses a Subject over the paragraph content (link_label, spnl, skip_line_end) and
   resolve_reference_link_definitions strips the definitions off the front of the paragraph. *)
Section RefDefs.
Variable fold : bytes -> bytes.

(* spnl from p *)
Definition spnl (inp : bytes) (p : nat) : nat :=
  let p1 := skip_spaces inp p in
  let (p2, ok) := skip_line_end inp p1 in
  if ok then skip_spaces inp p2 else p2.

(* Some (consumed, Some (normalized label, url, title) | None when the label normalizes to empty) *)
Definition parse_reference_inline (inp : bytes) : res (option (nat * option (bytes * (bytes * bytes)))) :=
  match link_label inp 0 with
  | None => Ok None
  | Some (lab, p) =>
    match lab with
    | [] => Ok None
    | _ =>
      if negb (peek_eq inp p x3a) then Ok None
      else
        let p1 := spnl inp (S p) in
        do m <- manual_scan_link_url (skipn p1 inp);
        match m with
        | None => Ok None
        | Some (url, ml) =>
          let beforetitle := p1 + ml in
          let p3 := spnl inp beforetitle in
          let title_search := if Nat.eqb p3 beforetitle then None else scan_link_title (skipn p3 inp) in
          let '(title, p4) :=
            match title_search with
            | Some tl => (firstn tl (skipn p3 inp), p3 + tl)
            | None => ([], beforetitle)
            end in
          let p5 := skip_spaces inp p4 in
          let (p6, ok) := skip_line_end inp p5 in
          (* `title.clear()` where the position is rewound: the title does not survive the rewind *)
          let fin :=
            if ok then Some (p6, title)
            else match title with
                 | [] => None
                 | _ => let q := skip_spaces inp beforetitle in
                        let (q2, ok2) := skip_line_end inp q in
                        if ok2 then Some (q2, @nil byte) else None
                 end in
          match fin with
          | None => Ok None
          | Some (pend, title) =>
            let nlab := normalize_label fold lab true in
            match nlab with
            | [] => Ok (Some (pend, None))
            | _ =>
              do cu <- clean_url url;
              do ct <- clean_title title;
              Ok (Some (pend, Some (nlab, (cu, ct))))
            end
          end
        end
    end
  end.

(* resolve_reference_link_definitions: (remaining content, entries in order of definition) *)
Fixpoint resolve_refdefs (fuel : nat) (content : bytes) (acc_rev : list (bytes * (bytes * bytes)))
  : res (bytes * list (bytes * (bytes * bytes))) :=
  match fuel with
  | O => OutOfFuel
  | S f =>
    match content with
    | c :: _ =>
      if beqb c x5b then
        do r <- parse_reference_inline content;
        match r with
        | Some (n, e) =>
          resolve_refdefs f (skipn n content) (match e with Some x => x :: acc_rev | None => acc_rev end)
        | None => Ok (content, rev acc_rev)
        end
      else Ok (content, rev acc_rev)
    | [] => Ok (content, rev acc_rev)
    end
  end.

Definition refdefs (content : bytes) : res (bytes * list (bytes * (bytes * bytes))) :=
  resolve_refdefs (S (List.length content)) content [].
End RefDefs.
