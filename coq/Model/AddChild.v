(* Model/AddChild.v — Parser::add_child (src/parser/mod.rs), the only place where block nodes are
   attached while lines are processed:

     while !nodes::can_contain_type(parent, &value) { parent = self.finalize(parent).unwrap(); }
     ... parent.append(node)

   finalize(n) returns n's parent (None at the root, where .unwrap() panics).  `chain` = the kinds
   of parent, parent's parent, ..., the root; the result is the kind of the node the new child is
   appended to.  (Body compared with the source by translator item add_child.) *)
From Coq Require Import List Strings.String.
From V Require Import Base.Res Model.Ast Gen.Nodes.
Import ListNotations.
Local Open Scope string_scope.

Fixpoint add_child_parent (chain : list kind) (c : kind) : res kind :=
  match chain with
  | [] => Panic "parser/mod.rs:add_child:finalize(root).unwrap()"
  | p :: up => if can_contain p c then Ok p else add_child_parent up c
  end.

(* the call sites that pass a parent which was just created (or just looked up) for exactly this
   child: the kind that parent has *)
Definition direct_parent (c : kind) : option kind :=
  match c with
  | KItem => Some KList
  | KDescriptionItem => Some KDescriptionList
  | KDescriptionTerm | KDescriptionDetails => Some KDescriptionItem
  | KTableRow => Some KTable
  | KTableCell => Some KTableRow
  | _ => None
  end.
