(* Model/FrontMatter.v — strings::split_off_front_matter, strings::trim_start_match (src/strings.rs),
   plus the arithmetic of the `feed` prologue that the end-to-end check needs (`lines` = number of
   LF bytes of the front matter, added to line_number).

   Faithful to the code as written:
   * `s = trim_start_match(s, BOM)`: ONE leading U+FEFF is stripped and every later slice is a slice
     of the STRIPPED string (the returned front matter never contains the BOM).
   * `start` is a byte index into `s`; every `s[start..]` / `s[..start]` is a checked slice: Rust
     panics unless `start` is a char boundary of `s` (`start == 0 || start == len ||
     (s[start] as i8) >= -0x40`, and `start <= len`).  Each one is an explicit `Panic` here.
   * `str::find(pat)` is the leftmost occurrence of `pat` as a byte substring.
   * the closer search is the chain  find(LF d CR LF) .or_else find(LF d LF) .or_else find(LF d),
     each over the WHOLE remainder `s[start..]` after the opening line (the first alternative that
     matches anywhere wins, not the leftmost match overall).
   * after the closer: `start == len` returns (s, empty); otherwise a line end is REQUIRED (else
     None) and one further LF / CRLF is absorbed.
   NO proofs in this file. *)
From Coq Require Import List NArith Bool Strings.String.
From V Require Import Base.Bytes Base.Res Gen.FrontMatterGen.
Import ListNotations.
Local Open Scope string_scope.
Local Open Scope list_scope.

Definition fm_bom : bytes := fm_bom_lit.     (* the literal in the code, regenerated: U+FEFF in UTF-8 *)
Definition fm_lf : bytes := [x0a].
Definition fm_crlf : bytes := [x0d; x0a].

(* str::strip_prefix / strings::trim_start_match *)
Definition strip_prefix (s pat : bytes) : option bytes :=
  if starts_with s pat then Some (skipn (List.length pat) s) else None.

Definition trim_start_match (s pat : bytes) : bytes :=
  match strip_prefix s pat with Some r => r | None => s end.

(* str::find(&str): index of the leftmost occurrence *)
Fixpoint find (s pat : bytes) : option nat :=
  if starts_with s pat then Some O
  else match s with
       | [] => None
       | _ :: s' => match find s' pat with Some n => Some (S n) | None => None end
       end.

(* Option::or_else *)
Definition or_else {A} (a : option A) (f : unit -> option A) : option A :=
  match a with Some x => Some x | None => f tt end.

(* str::is_char_boundary *)
Definition is_cont_byte (b : byte) : bool := in_range 128 191 b.   (* (b as i8) < -0x40 *)
Definition is_char_boundary (s : bytes) (n : nat) : bool :=
  match n with
  | O => true
  | _ => match nth_error s n with
         | Some b => negb (is_cont_byte b)
         | None => Nat.eqb n (List.length s)
         end
  end.

(* &s[n..] and &s[..n] *)
Definition slice_from (s : bytes) (n : nat) : res bytes :=
  if is_char_boundary s n then Ok (skipn n s) else Panic "strings.rs:split_off_front_matter:slice_from".
Definition slice_to (s : bytes) (n : nat) : res bytes :=
  if is_char_boundary s n then Ok (firstn n s) else Panic "strings.rs:split_off_front_matter:slice_to".

(* `if t.starts_with('\n') { 1 } else if t.starts_with("\r\n") { 2 } else <none>` *)
Definition line_end_len (t : bytes) : option nat :=
  if starts_with t fm_lf then Some 1
  else if starts_with t fm_crlf then Some 2
  else None.

Definition split_off_front_matter (s0 delimiter : bytes) : res (option (bytes * bytes)) :=
  let s := trim_start_match s0 fm_bom in
  if negb (starts_with s delimiter) then Ok None else
  let start := List.length delimiter in
  do t <- slice_from s start;
  match line_end_len t with
  | None => Ok None
  | Some k =>
    let start := start + k in
    (* the three finds slice s at the same index; one check stands for all three *)
    do t1 <- slice_from s start;
    match or_else (find t1 (fm_lf ++ delimiter ++ fm_crlf))
            (fun _ => or_else (find t1 (fm_lf ++ delimiter ++ fm_lf))
            (fun _ => find t1 (fm_lf ++ delimiter))) with
    | None => Ok None
    | Some n =>
      let start := start + (n + 1 + List.length delimiter) in
      if Nat.eqb start (List.length s) then Ok (Some (s, [])) else
      do t2 <- slice_from s start;
      match line_end_len t2 with
      | None => Ok None
      | Some k2 =>
        let start := start + k2 in
        do t3 <- slice_from s start;
        let start := start + match line_end_len t3 with Some k3 => k3 | None => 0 end in
        do fm <- slice_to s start;
        do rest <- slice_from s start;
        Ok (Some (fm, rest))
      end
    end
  end.

(* feed prologue: `lines = front_matter.bytes().filter(|b| b == LF).count()`; `line_number += lines` *)
Definition count_lf (s : bytes) : nat := List.length (filter (fun b => beqb b x0a) s).
