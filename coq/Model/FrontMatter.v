(* Model/FrontMatter.v — strings::split_off_front_matter, strings::line_at, strings::count_line_endings,
   strings::trim_start_match (src/strings.rs), the code after the repair `fix: front matter is cut by lines`
   (repo_fix_fm_1.patch).  The feed prologue that uses them is Model/Blocks.v `front_matter_prologue`.

   Faithful to the code as written:
   * `s = trim_start_match(s, BOM)`: ONE leading U+FEFF is stripped and every later slice is a slice
     of the STRIPPED string (the returned front matter never contains the BOM).
   * `end`, `start`, `next` are byte indices into `s`.  Every `&s[a..b]`, `&s[..n]`, `&s[n..]` is a checked
     str slice: Rust panics unless the indices are ordered, at most the length, and char boundaries of `s`
     (`n == 0 || n == len || (s[n] as i8) >= -0x40`).  Each one is an explicit `Panic` here.  `bytes[end]`
     and `bytes[end..]` are byte-slice accesses: they panic when out of range only.
   * `line_at(s, start)`: `end` runs from `start` to the first line-end byte (LF or CR) or the length; the
     next line starts after CR LF (2 bytes), after a single LF or CR (1 byte), or nowhere (end of input).
   * the opening line must be exactly the delimiter and terminated (`end == line.len()` means that line_at
     consumed no line ending); the loop walks the later lines until one is exactly the delimiter, and gives up
     when `end` reaches the length (a closing line that is the unterminated last line is found before
     that test fires); one further EMPTY line is absorbed (`line.is_empty()`).
   * the loop is modelled with fuel `S (len s)`; Proofs/FrontMatterProofs.v shows it never runs out.
   NO proofs in this file. *)
From Coq Require Import List NArith Bool Strings.String.
From V Require Import Base.Bytes Base.Res Gen.FrontMatterGen.
From V Require Model.Strings.
Import ListNotations.
Local Open Scope string_scope.
Local Open Scope list_scope.

Definition fm_bom : bytes := fm_bom_lit.     (* the literal in the code, regenerated: U+FEFF in UTF-8 *)
Definition fm_lf : bytes := [x0a].
Definition fm_crlf : bytes := [x0d; x0a].

(* str::strip_prefix / strings::trim_start_match *)
Definition strip_prefix (s pat : bytes) : option bytes :=
  if starts_with s pat then Some (skipn (List.length pat) s) else None.

Definition trim_start_match (s pat : bytes) : bytes :=
  match strip_prefix s pat with Some r => r | None => s end.

(* str::is_char_boundary *)
Definition is_cont_byte (b : byte) : bool := in_range 128 191 b.   (* (b as i8) < -0x40 *)
Definition is_char_boundary (s : bytes) (n : nat) : bool :=
  match n with
  | O => true
  | _ => match nth_error s n with
         | Some b => negb (is_cont_byte b)
         | None => Nat.eqb n (List.length s)
         end
  end.

(* &s[n..] and &s[..n] *)
Definition slice_from (s : bytes) (n : nat) : res bytes :=
  if is_char_boundary s n then Ok (skipn n s) else Panic "strings.rs:split_off_front_matter:slice_from".
Definition slice_to (s : bytes) (n : nat) : res bytes :=
  if is_char_boundary s n then Ok (firstn n s) else Panic "strings.rs:split_off_front_matter:slice_to".

(* &s[a..b] *)
Definition fm_slice (s : bytes) (a b : nat) : res bytes :=
  if Nat.leb a b && is_char_boundary s a && is_char_boundary s b then Ok (firstn (b - a) (skipn a s))
  else Panic "strings.rs:line_at:slice".

(* &bytes[n..] of a byte slice: only the range is checked *)
Definition byte_slice_from (s : bytes) (n : nat) : res bytes :=
  if Nat.leb n (List.length s) then Ok (skipn n s) else Panic "strings.rs:line_at:bytes[end..]".

(* `while end < bytes.len() && !is_line_end_char(bytes[end]) { end += 1; }`; t is bytes[end..] *)
Fixpoint scan_line_end (t : bytes) (end_ : nat) : nat :=
  match t with
  | [] => end_
  | b :: r => if Model.Strings.is_line_end_char b then end_ else scan_line_end r (S end_)
  end.

(* strings::line_at (named fm_line_at: Spec/SourcePos.v has a line_at of its own) *)
Definition fm_line_at (s : bytes) (start : nat) : res (bytes * nat) :=
  let end_ := scan_line_end (skipn start s) start in
  do tail <- byte_slice_from s end_;
  let next := if starts_with tail fm_crlf then end_ + 2
              else if Nat.ltb end_ (List.length s) then end_ + 1
              else end_ in
  do line <- fm_slice s start end_;
  Ok (line, next).

(* the `loop`: Some end = the offset after the closing line, None = `return None` *)
Fixpoint find_closing_line (fuel : nat) (s delimiter : bytes) (end_ : nat) : res (option nat) :=
  match fuel with
  | O => OutOfFuel
  | S fuel' =>
    if Nat.eqb end_ (List.length s) then Ok None else
    do ln <- fm_line_at s end_;
    if bytes_eqb (fst ln) delimiter then Ok (Some (snd ln))
    else find_closing_line fuel' s delimiter (snd ln)
  end.

Definition split_off_front_matter (s0 delimiter : bytes) : res (option (bytes * bytes)) :=
  let s := trim_start_match s0 fm_bom in
  do l0 <- fm_line_at s 0;
  if negb (bytes_eqb (fst l0) delimiter) || Nat.eqb (snd l0) (List.length (fst l0)) then Ok None else
  do c <- find_closing_line (S (List.length s)) s delimiter (snd l0);
  match c with
  | None => Ok None
  | Some end_ =>
    do l1 <- fm_line_at s end_;
    let end_ := match fst l1 with [] => snd l1 | _ :: _ => end_ end in
    do fm <- slice_to s end_;
    do rest <- slice_from s end_;
    Ok (Some (fm, rest))
  end.

(* strings::count_line_endings: the bytes that are LF, or CR not followed by LF *)
Fixpoint count_line_endings (s : bytes) : nat :=
  match s with
  | [] => 0
  | b :: r =>
    (if beqb b x0a || (beqb b x0d && negb (match r with b2 :: _ => beqb b2 x0a | [] => false end)) then 1 else 0)
    + count_line_endings r
  end.

(* the number of LF bytes (what the feed prologue counted before the repair; kept for the checks) *)
Definition count_lf (s : bytes) : nat := List.length (filter (fun b => beqb b x0a) s).
