(* Model/Spx.v — the arithmetic components of source positions.

   1. `Spx::consume` (src/parser/mod.rs, end of file): a VecDeque of (sourcepos, byte count) pieces, one per
      Text node merged by postprocess_text_nodes; consume(rem) advances through `rem` bytes and returns the
      end column of the text consumed so far.  Transcribed arm by arm (Greater / Equal / Less), the
      `assert!` and the `unreachable!()` are Panic results.  usize subtraction is the DEBUG-build
      semantics the harness is compiled with (overflow checks on): `a - b` with a < b panics.  The
      left operand of `||` in the assert is evaluated first, so the subtraction panics even when
      rem == 0.  Additions are not bounded (columns are far below 2^63).
   2. `LineColumn::column_add` (src/nodes.rs) and the column computation of `Subject::make_inline`
      (src/parser/inlines.rs): isize arithmetic followed by usize::try_from(..).unwrap().
   3. the column offset set by `handle_newline` / `adjust_node_newlines`.
   The function bodies are compared with the Rust text on every run (translator item `srcpos`). *)
From Coq Require Import List NArith ZArith Bool Strings.String.
From V Require Import Base.Bytes Base.Res Model.Ast.
Import ListNotations.
Local Open Scope string_scope.
Local Open Scope list_scope.
Local Open Scope N_scope.

Definition piece : Type := (sourcepos * N)%type.

Definition site_unreachable : string := "parser/mod.rs:Spx::consume:unreachable".
Definition site_assert : string := "parser/mod.rs:Spx::consume:assert".
Definition site_sub1 : string := "parser/mod.rs:Spx::consume:end-start:subtract-overflow".
Definition site_sub2 : string := "parser/mod.rs:Spx::consume:start+rem-1:subtract-overflow".

(* while let Some((sp, x)) = self.0.pop_front() { match rem.cmp(&x) { .. } } unreachable!() *)
Fixpoint consume (q : list piece) (rem : N) : res (N * list piece) :=
  match q with
  | [] => Panic site_unreachable
  | (sp, x) :: q' =>
    match rem ?= x with
    | Gt => consume q' (rem - x)
    | Eq => Ok (ec sp, q')
    | Lt =>
      if ec sp <? sc sp then Panic site_sub1
      else if negb ((ec sp - sc sp + 1 =? x) || (rem =? 0)) then Panic site_assert
      else if sc sp + rem =? 0 then Panic site_sub2
      else Ok (sc sp + rem - 1, (mkSp (sl sp) (sc sp + rem) (el sp) (ec sp), x - rem) :: q')
    end
  end.

(* ---- signed column arithmetic ---- *)
Local Open Scope Z_scope.
Definition site_column_add : string := "nodes.rs:LineColumn::column_add:try_from.unwrap".
Definition site_make_inline : string := "parser/inlines.rs:make_inline:try_from.unwrap".

Definition to_usize (site : string) (v : Z) : res N :=
  if v <? 0 then Panic site else Ok (Z.to_N v).

(* LineColumn { line, column: usize::try_from((self.column as isize) + offset).unwrap() } *)
Definition column_add (column : N) (offset : Z) : res N :=
  to_usize site_column_add (Z.of_N column + offset).

(* make_inline(value, start_column, end_column):
     start_column as isize + 1 + self.column_offset + self.line_offset as isize   (likewise end) *)
Definition make_inline_cols (start_column end_column : N) (column_offset : Z) (line_offset : N)
  : res (N * N) :=
  let s := Z.of_N start_column + 1 + column_offset + Z.of_N line_offset in
  let e := Z.of_N end_column + 1 + column_offset + Z.of_N line_offset in
  do s' <- to_usize site_make_inline s;
  do e' <- to_usize site_make_inline e;
  Ok (s', e').

(* handle_newline: self.column_offset = -(self.pos as isize)   (pos = first byte after the line ending) *)
Definition newline_offset (pos : N) : Z := - Z.of_N pos.
(* adjust_node_newlines: self.column_offset = -(self.pos as isize) + since_newline as isize + extra as isize *)
Definition adjust_offset (pos since_newline extra : N) : Z :=
  - Z.of_N pos + Z.of_N since_newline + Z.of_N extra.
