(* Model/Feed.v — the line splitter of the block parser:
     Parser::feed (src/parser/mod.rs), the prologue of Parser::process_line, Parser::finish (its flush),
     the budget assignment of finalize_document.
   Loop-faithful: the outer `while buffer < end` runs on fuel (each iteration consumes at least one byte;
   Proofs/FeedProofs.v shows the fuel given is never exhausted), the inner `while eol < end` is the
   structural `scan`.  A position `buffer` into `s` is represented by the suffix s[buffer..].

   Panic sites: none is reachable.  Every index in feed is guarded by `eol < end` / `buffer < end` /
   `!s.is_empty()`, the slices are s[buffer..eol] with buffer <= eol <= end by construction of the scan,
   `line.last().unwrap()` in process_line is guarded by `line.is_empty() ||`, and the two
   `line[curline_end_col - 1]` reads by `curline_end_col > 0`.  `total_size` saturates instead of
   overflowing.  The model therefore has no Panic result; `res` is used for OutOfFuel only.

   Constants (line-end set, NUL replacement, byte-order mark, budget floor) come from Gen/FeedConst.v,
   regenerated from the source on every run together with a shape check of the loop text. *)
From Coq Require Import List NArith Bool Strings.String.
From V Require Import Base.Bytes Base.Res Gen.FeedConst.
Import ListNotations.
Local Open Scope string_scope.
Local Open Scope list_scope.

Definition is_nil {A} (l : list A) : bool := match l with [] => true | _ => false end.

(* inner loop, started at `buffer`:
     while eol < end { if is_line_end_char(s[eol]) { process = true; break; } if s[eol] == 0 { break; } eol += 1; }
   returns (s[buffer..eol], s[eol..], process) *)
Fixpoint scan (s : bytes) : bytes * bytes * bool :=
  match s with
  | [] => ([], [], false)
  | b :: s' =>
    if is_line_end_char b then ([], s, true)
    else if beqb b x00 then ([], s, false)
    else let '(c, r, p) := scan s' in (b :: c, r, p)
  end.

(* state carried around the outer loop *)
Record feed_state := mkFS {
  fs_lines : list bytes;      (* slices handed to process_line so far, in order *)
  fs_linebuf : bytes;         (* the caller's linebuf *)
  fs_last_cr : bool           (* self.last_buffer_ended_with_cr *)
}.

(* the tail of one iteration: `buffer = eol; if buffer < end { ... }`; returns (s[buffer'..], flag set) *)
Definition advance (rest : bytes) : bytes * bool :=
  match rest with
  | [] => ([], false)
  | b :: r1 =>
    if beqb b x00 then (r1, false)
    else
      (* if s[buffer] == CR { buffer += 1; if buffer == end { last_buffer_ended_with_cr = true } } *)
      let '(r2, cr) := if beqb b x0d then (r1, is_nil r1) else (rest, false) in
      (* if buffer < end && s[buffer] == LF { buffer += 1 } *)
      let r3 := match r2 with c :: r' => if beqb c x0a then r' else r2 | [] => r2 end in
      (r3, cr)
  end.

(* one iteration of `while buffer < end` (entered with buffer < end, i.e. s non-empty):
   returns the new state and s[buffer'..] *)
Definition feed_iter (eof : bool) (st : feed_state) (s : bytes) : feed_state * bytes :=
  let '(chunk, rest, p0) := scan s in
  let process := p0 || (is_nil rest && eof) in            (* if eol >= end && eof { process = true } *)
  let st1 :=
    if process then
      if negb (is_nil (fs_linebuf st))
      then mkFS (fs_lines st ++ [fs_linebuf st ++ chunk]) [] (fs_last_cr st)
      else mkFS (fs_lines st ++ [chunk]) (fs_linebuf st) (fs_last_cr st)
    else
      match rest with
      | b :: _ =>
        if beqb b x00                                      (* else if eol < end && s[eol] == NUL *)
        then mkFS (fs_lines st) (fs_linebuf st ++ chunk ++ nul_replacement) (fs_last_cr st)
        else mkFS (fs_lines st) (fs_linebuf st ++ chunk) (fs_last_cr st)
      | [] => mkFS (fs_lines st) (fs_linebuf st ++ chunk) (fs_last_cr st)
      end in
  let '(s', cr) := advance rest in
  (mkFS (fs_lines st1) (fs_linebuf st1) (fs_last_cr st1 || cr), s').

Fixpoint feed_loop (fuel : nat) (eof : bool) (st : feed_state) (s : bytes) : res feed_state :=
  match fuel with
  | O => OutOfFuel
  | S f =>
    match s with
    | [] => Ok st                                             (* while buffer < end *)
    | _ :: _ => let '(st', s') := feed_iter eof st s in feed_loop f eof st' s'
    end
  end.

(* the statements before the loop: total_size update (saturating at usize::MAX, 64-bit target),
   the skip of a LF that completes a CR which ended the previous buffer, the reset of the flag *)
Definition usize_max : N := 18446744073709551615%N.

Definition add_total (total : N) (len : N) : N :=
  if (usize_max - total <? len)%N then usize_max else (total + len)%N.

Definition feed (eof : bool) (total : N) (last_cr : bool) (linebuf : bytes) (s : bytes)
  : res (feed_state * N) :=
  let total' := add_total total (N.of_nat (List.length s)) in
  let s0 := match s with
            | b :: s' => if last_cr && beqb b x0a then s' else s
            | [] => s
            end in
  do st <- feed_loop (S (List.length s0)) eof (mkFS [] linebuf false) s0;
  Ok (st, total').

(* finish(): `if !remaining.is_empty() { self.process_line(&remaining) }` *)
Definition finish_flush (st : feed_state) : list bytes :=
  if negb (is_nil (fs_linebuf st)) then fs_lines st ++ [fs_linebuf st] else fs_lines st.

(* parse_document for an input without front matter:
   feed(&mut linebuf = [], buffer, eof = true) on a fresh parser (total_size 0, flag false), then finish(linebuf).
   Result: every slice handed to process_line, in order, and total_size. *)
Definition feed_lines_res (x : bytes) : res (list bytes * N) :=
  do r <- feed true 0%N false [] x;
  let '(st, total) := r in
  Ok (finish_flush st, total).

(* total version for statements and extraction; FeedProofs.feed_total shows the default is never used *)
Definition feed_lines (x : bytes) : list bytes * N :=
  match feed_lines_res x with
  | Ok r => r
  | _ => ([], 0%N)
  end.

Definition lines (x : bytes) : list bytes := fst (feed_lines x).
Definition total_size (x : bytes) : N := snd (feed_lines x).

(* process_line prologue: the line the block parser works on *)
Definition last_byte (l : bytes) : option byte :=
  match rev l with b :: _ => Some b | [] => None end.

Definition norm_line (line : bytes) : bytes :=
  match last_byte line with
  | None => line ++ [x0a]                                       (* line.is_empty() *)
  | Some b => if negb (is_line_end_char b) then line ++ [x0a] else line
  end.

(* process_line: `if self.line_number == 0 && line.len() >= 3 && line.starts_with(BOM) { self.offset += 3 }` *)
Definition bom_offset (line_number : N) (line : bytes) : N :=
  if (line_number =? bom_line_number)%N
     && (bom_min_len <=? N.of_nat (List.length line))%N
     && starts_with line bom_bytes
  then bom_skip else 0%N.

(* what the block parser reads: the normalised lines, the first one from its starting offset on *)
Definition seen_lines (x : bytes) : list bytes :=
  match lines x with
  | [] => []
  | l :: r => skipn (N.to_nat (bom_offset 0%N (norm_line l))) (norm_line l) :: map norm_line r
  end.

(* finalize_document: self.refmap.max_ref_size *)
Definition max_ref_size (total : N) : N :=
  if (ref_budget_floor <? total)%N then total else ref_budget_floor.
