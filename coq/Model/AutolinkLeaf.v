(* Model/AutolinkLeaf.v — src/parser/autolink.rs: validate_protocol, check_domain, is_valid_hostchar,
   autolink_delim; src/parser/table.rs: unescape_pipes.

   check_domain iterates `str::from_utf8_unchecked(data).char_indices()`: the model cuts `data` into
   characters by the width the lead byte announces (continuation bytes are skipped with a counter), which
   is what the decoder does on valid UTF-8 (the callers pass slices of a str cut at ASCII positions).
   is_valid_hostchar(ch) = !(ch.is_whitespace() || ch.is_punctuation() || ch.is_symbol()): for ASCII the
   three Unicode classes are fixed and modelled (White_Space: 9..13 and 32; P* and S*: exactly the bytes
   ctype::ispunct accepts); beyond ASCII the answer is the parameter `hc` on the encoded character
   (Unicode tables of the unicode_categories crate and of std), supplied per case by the harness.

   autolink_delim only ever looks at data[..link_end] from its end: the model works on that prefix
   reversed (`rp`), one loop iteration per unit of fuel; link_end is the length of `rp`. *)
From Coq Require Import List NArith Bool Strings.String.
From V Require Import Base.Bytes Base.Res Gen.StrLeafGen.
Import ListNotations.
Local Open Scope string_scope.
Local Open Scope list_scope.

Fixpoint count_while_b (p : byte -> bool) (s : bytes) : nat :=
  match s with
  | b :: r => if p b then S (count_while_b p r) else O
  | [] => O
  end.

(* ---- validate_protocol(protocol, contents, cursor) ---- *)
Definition validate_protocol (protocol contents : bytes) (cursor : nat) : res bool :=
  let size := List.length contents in
  if Nat.ltb size cursor then
    (* cursor > 0 here: the first test reads contents[cursor - 1] *)
    Panic "autolink.rs:validate_protocol:contents[cursor - rewind - 1]"
  else
    let before := rev (firstn cursor contents) in
    let rewind := count_while_b sl_isalpha before in
    (* size - cursor cannot underflow here *)
    Ok (Nat.leb (List.length protocol) (size - cursor + rewind)
        && bytes_eqb (rev (firstn rewind before)) protocol).

(* ---- is_valid_hostchar ---- *)
Definition ascii_whitespace (b : byte) : bool := in_range 9 13 b || beqb b x20.
Definition hostchar_ascii (b : byte) : bool := negb (ascii_whitespace b || sl_ispunct b).

Definition char_width (b : byte) : nat :=
  if (bN b <? 192)%N then 1 else if (bN b <? 224)%N then 2 else if (bN b <? 240)%N then 3 else 4.

Definition is_valid_hostchar (hc : bytes -> bool) (ch : bytes) : bool :=
  match ch with
  | [b] => if is_ascii b then hostchar_ascii b else hc ch
  | _ => hc ch
  end.

(* ---- check_domain(data, allow_short) ---- *)
Inductive cd_exit := CdReturn (r : option nat) | CdDone (np uscore1 uscore2 : nat).

(* s = data[i..]; skip = continuation bytes of the current character still to pass *)
Fixpoint cd_loop (hc : bytes -> bool) (len : nat) (allow_short : bool)
         (s : bytes) (skip i np u1 u2 : nat) : res cd_exit :=
  match s with
  | [] => Ok (CdDone np u1 u2)
  | b :: r =>
    match skip with
    | S k => cd_loop hc len allow_short r k (S i) np u1 u2
    | O =>
      let w := char_width b in
      let ch := b :: firstn (w - 1) r in
      let next := fun np u1 u2 => cd_loop hc len allow_short r (w - 1) (S i) np u1 u2 in
      if beqb b x5c then
        if Nat.eqb len 0 then Panic "autolink.rs:check_domain:data.len() - 1"
        else if Nat.ltb i (len - 1) then next np u1 u2
        else (* the backslash is the last byte: it falls through to the host character test *)
          if negb (is_valid_hostchar hc ch) && negb (beqb b x2d) then
            Ok (CdReturn (if Nat.eqb u1 0 && Nat.eqb u2 0 && (allow_short || Nat.ltb 0 np) then Some i else None))
          else next np u1 u2
      else if beqb b x5f then next np u1 (S u2)
      else if beqb b x2e then next (S np) u2 0
      else if negb (is_valid_hostchar hc ch) && negb (beqb b x2d) then
        Ok (CdReturn (if Nat.eqb u1 0 && Nat.eqb u2 0 && (allow_short || Nat.ltb 0 np) then Some i else None))
      else next np u1 u2
    end
  end.

Definition check_domain (hc : bytes -> bool) (data : bytes) (allow_short : bool) : res (option nat) :=
  do e <- cd_loop hc (List.length data) allow_short data 0 0 0 0 0;
  match e with
  | CdReturn r => Ok r
  | CdDone np u1 u2 =>
    if (Nat.ltb 0 u1 || Nat.ltb 0 u2) && Nat.leb np domain_uscore_np then Ok None
    else if allow_short || Nat.ltb 0 np then Ok (Some (List.length data))
    else Ok None
  end.

(* ---- autolink_delim(data, link_end, relaxed_autolinks) ---- *)
Definition count_byte (c : byte) (s : bytes) : nat := List.length (filter (beqb c) s).

(* `while new_end > 0 && isalpha(data[new_end]) { new_end -= 1 }` on the reversed prefix
   t = [data[new_end]; data[new_end - 1]; ...; data[0]]: never passes the last element (index 0) *)
Fixpoint strip_alpha_keep_last (t : bytes) : bytes :=
  match t with
  | b :: ((_ :: _) as r) => if sl_isalpha b then strip_alpha_keep_last r else t
  | _ => t
  end.

Fixpoint delim_loop (fuel : nat) (relaxed : bool) (rp : bytes) : res nat :=
  match fuel with
  | O => OutOfFuel
  | S f =>
    match rp with
    | [] => Ok 0                                           (* link_end == 0 *)
    | cclose :: rest =>
      let copen :=
        if beqb cclose x29 then Some x28
        else if relaxed then
          if beqb cclose x5d then Some x5b else if beqb cclose x7d then Some x7b else None
        else None in
      if sl_link_end_assortment cclose then delim_loop f relaxed rest
      else if beqb cclose x3b then
        match rest with
        | [] => Panic "autolink.rs:autolink_delim:link_end - 2"
        | _ =>
          (* new_end = link_end - 2 indexes the head of `rest` *)
          let t := strip_alpha_keep_last rest in
          match t with
          | [] => Panic "autolink.rs:autolink_delim:data[new_end]"     (* unreachable: rest is not empty *)
          | c :: below =>
            if Nat.ltb (List.length t) (List.length rest) && beqb c x26
            then delim_loop f relaxed below                  (* link_end = new_end *)
            else delim_loop f relaxed rest                   (* link_end -= 1 *)
          end
        end
      else
        match copen with
        | Some co =>
          (* opening / closing counted over data[..link_end]; a byte equal to copen is not counted as
             closing (else-if), which matters only if they were equal: they never are *)
          let opening := count_byte co rp in
          let closing := count_byte cclose rp in
          if Nat.leb closing opening then Ok (List.length rp)
          else delim_loop f relaxed rest
        | None => Ok (List.length rp)
        end
    end
  end.

Definition autolink_delim (data : bytes) (link_end : nat) (relaxed : bool) : res nat :=
  (* for (i, b) in data.iter().enumerate().take(link_end): cut at the first LT *)
  let pre := firstn link_end data in
  let cut := count_while_b (fun b => negb (beqb b x3c)) pre in
  let link_end1 := if Nat.ltb cut (List.length pre) then cut else link_end in
  if Nat.ltb (List.length data) link_end1 then
    match link_end1 with
    | O => Ok 0
    | _ => Panic "autolink.rs:autolink_delim:data[link_end - 1]"
    end
  else delim_loop (S link_end1) relaxed (rev (firstn link_end1 data)).

(* ---- table.rs: unescape_pipes ---- *)
Fixpoint unescape_pipes (s : bytes) : bytes :=
  match s with
  | [] => []
  | c :: r =>
    if beqb c x5c && (match r with d :: _ => beqb d x7c | [] => false end) then unescape_pipes r
    else c :: unescape_pipes r
  end.
