(* Model/Footnotes.v — src/parser/mod.rs `process_footnotes` with its three tree walks
   (`find_footnote_definitions`, `find_footnote_references`, `cleanup_footnote_definitions`).

   `fold` is `normalize_label(_, Case::Fold)`, `pres` is `normalize_label(_, Case::Preserve)` (both
   Unicode-dependent; parameters).  The HashMap is an association list keyed by the folded label; the
   order in which `into_values()` yields the entries is the parameter `perm`.  A map value points at
   its definition node; the reference walk then mutates references *inside* that node, so the model
   stores the position of the definition in the list of definitions reachable from the root without
   entering a definition (`top_defs`, document order) and reads the node back after the reference walk
   (which never changes that list's length or order).
   u32 arithmetic (`*ixp += 1`, `total_references += 1`) is modelled in N: overflow needs 2^32 references. *)
From Coq Require Import List NArith Bool.
From V Require Import Base.Bytes Model.Ast.
Import ListNotations.
Local Open Scope list_scope.

Record fdef := mkFdef {
  f_key : bytes;          (* normalize_label(name, Fold): the map key *)
  f_ix : option N;
  f_idx : nat;            (* which node: position in top_defs *)
  f_name : bytes;         (* normalize_label(name, Preserve) *)
  f_total : N }.

Definition fmap := list fdef.

Fixpoint map_insert (e : fdef) (m : fmap) : fmap :=
  match m with
  | [] => [e]
  | x :: r => if bytes_eqb (f_key x) (f_key e) then e :: r else x :: map_insert e r
  end.

Fixpoint map_get (k : bytes) (m : fmap) : option fdef :=
  match m with
  | [] => None
  | x :: r => if bytes_eqb (f_key x) k then Some x else map_get k r
  end.

(* get_mut + write back *)
Fixpoint map_set (e : fdef) (m : fmap) : fmap :=
  match m with
  | [] => []
  | x :: r => if bytes_eqb (f_key x) (f_key e) then e :: r else x :: map_set e r
  end.

Definition is_def (n : node) : bool :=
  match nval n with FootnoteDefinition _ _ => true | _ => false end.

(* definitions reachable without entering a definition, document order *)
Fixpoint top_defs (n : node) : list node :=
  match n with
  | Node v sp ch =>
    match v with
    | FootnoteDefinition _ _ => [n]
    | _ => flat_map top_defs ch
    end
  end.

Definition def_name (n : node) : bytes :=
  match nval n with FootnoteDefinition name _ => name | _ => [] end.

(* ix with Option's ordering: None < Some _ *)
Definition ix_le (a b : option N) : bool :=
  match a, b with
  | None, _ => true
  | Some _, None => false
  | Some x, Some y => (x <=? y)%N
  end.

Fixpoint insert_sorted (e : fdef) (l : list fdef) : list fdef :=
  match l with
  | [] => [e]
  | x :: r => if ix_le (f_ix e) (f_ix x) then e :: l else x :: insert_sorted e r
  end.

Definition sort_by_ix (l : list fdef) : list fdef := fold_right insert_sorted [] l.

Definition has_ix (f : fdef) : bool := match f_ix f with Some _ => true | None => false end.

Section Footnotes.
  Variable fold : bytes -> bytes.
  Variable pres : bytes -> bytes.
  Variable perm : list fdef -> list fdef.

  (* find_footnote_definitions: a later definition with the same folded label replaces the earlier *)
  Fixpoint collect (defs : list node) (idx : nat) (m : fmap) : fmap :=
    match defs with
    | [] => m
    | d :: r =>
      collect r (S idx)
        (map_insert (mkFdef (fold (def_name d)) None idx (pres (def_name d)) 0) m)
    end.

  (* find_footnote_references: whole tree in document order, definitions included.  Since fix C15-d the walk does not
     normalise the stored name again, so `pres` no longer occurs in it; the `using` attribute keeps `refs fold pres` the
     interface every proof file is written against. *)
  #[using="fold pres"] Fixpoint refs (n : node) (st : fmap * N) : node * (fmap * N) :=
    match n with
    | Node v sp ch =>
      match v with
      | FootnoteReference name _ _ =>
        match map_get (fold name) (fst st) with
        | Some f =>
          let '(ix, ixp, fix_) :=
            match f_ix f with
            | Some ix => (ix, snd st, Some ix)
            | None => ((snd st + 1)%N, (snd st + 1)%N, Some (snd st + 1)%N)
            end in
          let total := (f_total f + 1)%N in
          let f' := mkFdef (f_key f) fix_ (f_idx f) (f_name f) total in
          (Node (FootnoteReference (f_name f) total ix) sp ch, (map_set f' (fst st), ixp))
        | None =>
          (Node (Text ([x5b; x5e] ++ name ++ [x5d])) sp ch, st)
        end
      | _ =>
        let '(ch', st') :=
          (fix go (l : list node) (st : fmap * N) : list node * (fmap * N) :=
             match l with
             | [] => ([], st)
             | c :: r =>
               let '(c', st1) := refs c st in
               let '(r', st2) := go r st1 in
               (c' :: r', st2)
             end) ch st in
        (Node v sp ch', st')
      end
    end.

  (* cleanup_footnote_definitions: detach every definition reachable without entering one *)
  Fixpoint cleanup (n : node) : node :=
    match n with
    | Node v sp ch =>
      match v with
      | FootnoteDefinition _ _ => n   (* only at the root: detach() of a parentless node *)
      | _ =>
        Node v sp ((fix go (l : list node) : list node :=
                      match l with
                      | [] => []
                      | c :: r => if is_def c then go r else cleanup c :: go r
                      end) ch)
      end
    end.

  Definition set_def (f : fdef) (n : node) : node :=
    match n with
    | Node (FootnoteDefinition _ _) sp ch => Node (FootnoteDefinition (f_name f) (f_total f)) sp ch
    | _ => n   (* unreachable!() in the source: every map value points at a definition *)
    end.

  (* the nodes appended to the root, in order *)
  Definition appended (m : fmap) (defs' : list node) : list node :=
    flat_map (fun f => match nth_error defs' (f_idx f) with
                       | Some d => [set_def f d]
                       | None => []
                       end)
             (filter has_ix (sort_by_ix (perm m))).

  Definition process (root : node) : node :=
    let m0 := collect (top_defs root) 0 [] in
    let '(root1, (m1, ix)) := refs root (m0, 0%N) in
    let defs1 := top_defs root1 in
    let root2 := match m1 with [] => root1 | _ => cleanup root1 end in
    if (0 <? ix)%N then
      match root2 with
      | Node v sp ch => Node v sp (ch ++ appended m1 defs1)
      end
    else root2.
End Footnotes.

(* ---- classes of the two known findings, as boolean predicates on the tree BEFORE process ---- *)

(* F22: a definition written inside a definition *)
Fixpoint has_def (n : node) : bool :=
  match n with
  | Node v _ ch =>
    match v with
    | FootnoteDefinition _ _ => true
    | _ => existsb has_def ch
    end
  end.

Fixpoint no_nested_defs (n : node) : bool :=
  match n with
  | Node v _ ch =>
    match v with
    | FootnoteDefinition _ _ => negb (existsb has_def ch)
    | _ => forallb no_nested_defs ch
    end
  end.

(* all FootnoteReference names below a node, document order *)
Fixpoint ref_names (n : node) : list bytes :=
  match n with
  | Node v _ ch =>
    match v with
    | FootnoteReference name _ _ => [name]
    | _ => flat_map ref_names ch
    end
  end.

Section Classes.
  Variable fold : bytes -> bytes.

  (* the definitions that survive: per folded label the last one in top_defs order *)
  Fixpoint last_wins (defs : list node) : list bool :=
    match defs with
    | [] => []
    | d :: r =>
      negb (existsb (fun e => bytes_eqb (fold (def_name e)) (fold (def_name d))) r) :: last_wins r
    end.

  Definition defined (root : node) (name : bytes) : bool :=
    existsb (fun d => bytes_eqb (fold (def_name d)) (fold name)) (top_defs root).

  (* F8: a definition that will not be appended holds a reference that resolves.  A definition is
     appended iff it is the last of its folded label (map insert) and ANY reference in the whole tree
     resolves to that label (the reference walk also numbers references inside definitions that are
     dropped afterwards). *)
  Definition kept_flags (root : node) : list bool :=
    let defs := top_defs root in
    let all_refs := map fold (ref_names root) in
    map (fun p : node * bool =>
           snd p && existsb (bytes_eqb (fold (def_name (fst p)))) all_refs)
        (combine defs (last_wins defs)).

  Definition no_ref_in_dropped_def (root : node) : bool :=
    forallb (fun p : node * bool =>
               snd p || negb (existsb (defined root) (ref_names (fst p))))
            (combine (top_defs root) (kept_flags root)).
End Classes.
