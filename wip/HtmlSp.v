(* Proofs/HtmlSp.v — C18: turning the sourcepos option on only adds SpAttr attributes to the
   events of Model/Html.v; nothing else (tags, other attributes and their order, text, state) changes. *)
From Coq Require Import List NArith Bool Strings.String.
From V Require Import Base.Bytes Base.Res Model.Ast Model.Html Spec.HtmlSpec.
Import ListNotations.
Local Open Scope list_scope.

Definition set_sp (b : bool) (o : opts) : opts :=
  mkOpts (o_tagfilter o) (o_header_ids o) (o_footnotes o) (o_wikilinks_after o) (o_wikilinks_before o)
         (o_relaxed_autolinks o) (o_hardbreaks o) (o_github_pre_lang o) (o_full_info_string o)
         (o_width o) (o_unsafe o) (o_escape o) (o_list_style o) b (o_escaped_char_spans o)
         (o_gfm_quirks o) (o_prefer_fenced o) (o_figure_with_caption o) (o_tasklist_classes o)
         (o_ol_width o) (o_ignore_empty_links o) (o_experimental_minimize o).

Definition erase3 (r : res (list ev * hst * mode)) : res (list ev * hst * mode) :=
  match r with
  | Ok (e, s, m) => Ok (map erase_sp e, s, m)
  | Panic x => Panic x
  | OutOfFuel => OutOfFuel
  end.

Definition erase2 (r : res (list ev * hst)) : res (list ev * hst) :=
  match r with
  | Ok (e, s) => Ok (map erase_sp e, s)
  | Panic x => Panic x
  | OutOfFuel => OutOfFuel
  end.

Lemma backref_no_sp name fnix total k :
  map erase_sp (backref_loop name fnix total k) = backref_loop name fnix total k.
Proof.
  revert k. induction total as [|t IH]; intro k; [reflexivity|].
  cbn [backref_loop]. rewrite !map_app. rewrite IH.
  destruct (1 <? N.of_nat k)%N; reflexivity.
Qed.

Lemma put_backref_no_sp name total st :
  let '(e, s, w) := put_footnote_backref name total st in map erase_sp e = e.
Proof.
  unfold put_footnote_backref. destruct (fn_ix st <=? wfn_ix st)%N; [reflexivity|].
  apply backref_no_sp.
Qed.

Lemma enter_erase slug o c n st :
  enter slug (set_sp false o) c n st = erase3 (enter slug (set_sp true o) c n st).
Proof.
  destruct n as [v sp ch]. unfold enter, sp_attr, sp_attr_nocheck.
  cbn [set_sp o_sourcepos o_tagfilter o_header_ids o_footnotes o_wikilinks_after o_wikilinks_before
       o_relaxed_autolinks o_hardbreaks o_github_pre_lang o_full_info_string o_width o_unsafe o_escape
       o_list_style o_escaped_char_spans o_gfm_quirks o_prefer_fenced o_figure_with_caption
       o_tasklist_classes o_ol_width o_ignore_empty_links o_experimental_minimize].
  destruct (0 <? sl sp)%N; destruct v; try reflexivity.
  all: repeat (cbn [bind]; match goal with
       | |- context [if ?b then _ else _] => destruct b eqn:?
       | |- context [match ?x with _ => _ end] => destruct x eqn:?
       | |- context [bind ?r _] => destruct r eqn:?
       | |- context [align_attr ?a] => destruct a
       end); try reflexivity.
  all: try (vm_compute; reflexivity).
Qed.
